#!/bin/bash
# runs every registered check of a tier, one after the other (each uses all cores); prints one line per check
tier=${1:-quick}
cd "$(dirname "$0")/.."
rc_all=0
for id in $(python3 -c "import json;print(' '.join(c['property_id'] for c in json.load(open('MANIFEST.json'))['checks']))"); do
  t0=$(date +%s)
  python3 symx/check.py $id --tier $tier > /tmp/runall_$id.log 2>&1
  rc=$?
  echo "$id rc=$rc $(( $(date +%s) - t0 ))s :: $(tail -1 /tmp/runall_$id.log | cut -c1-200)"
  grep -h "^VIOLATION\|^INCONCLUSIVE\|^KNOWN-FINDING" /tmp/runall_$id.log | cut -c1-300
  [ $rc -ne 0 ] && rc_all=1
done
exit $rc_all
