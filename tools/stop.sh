#!/bin/sh
# stop running checks (python processes only, never the calling shell) and their solver processes
for p in $(ps -eo pid,comm,args | awk '$2 ~ /^python/ && /symx\/check\.py/ {print $1}'); do kill $p 2>/dev/null; done
sleep 1
killall -9 cbmc kissat z3 cvc5 2>/dev/null
exit 0
