#!/bin/sh
# stop running checks and their solver processes (bracket trick: never matches this shell)
for p in $(ps -eo pid,args | grep "symx/[c]heck.py" | awk '{print $1}'); do kill $p 2>/dev/null; done
sleep 1
killall -9 cbmc kissat z3 cvc5 2>/dev/null
exit 0
