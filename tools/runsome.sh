#!/bin/bash
# usage: tools/runsome.sh <tier> <id>...   (sequential; one summary line per check)
tier=$1; shift
cd "$(dirname "$0")/.."
for id in "$@"; do
  t0=$(date +%s)
  SYMX_EVIDENCE_DIR=${SYMX_EVIDENCE_DIR:-/verif/evidence} python3 symx/check.py $id --tier $tier > /tmp/run_${tier}_$id.log 2>&1
  rc=$?
  echo "$id rc=$rc $(( $(date +%s) - t0 ))s :: $(tail -1 /tmp/run_${tier}_$id.log | cut -c1-200)"
  grep -h "^VIOLATION\|^INCONCLUSIVE\|^KNOWN-FINDING" /tmp/run_${tier}_$id.log | cut -c1-300
done
