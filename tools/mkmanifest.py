#!/usr/bin/env python3
"""writes /verif/MANIFEST.json from the table below (kept valid against /root/.vp/MANIFEST.schema.json)"""
import json, os
HERE = os.path.dirname(os.path.abspath(__file__))
VERIF = os.path.dirname(HERE)

TRUST = ('clang-14 -O1 lowering; symx/ll2c.py IR->C translator (validated differentially against a g++ build of the real '
         'sources on every run); CBMC 6.11 memory model and its SAT/SMT back-ends (minisat, cadical, kissat, cvc5 with '
         '--solve-bv-as-int=sum; canary twins on every run); Torus32 arithmetic wraps mod 2^32 (A1)')

CLAIMED = {
    # id: (level text, level note (assumptions), technique, design_ref)
    'C13': ('For each message-space size M of the stated list, one SMT/SAT query per statement covers all 2^32 phases '
            '(resp. all mu in [0,M), all 2^32 torus values, all |k|<=K) of the real numeric-functions.cpp code: exact '
            'nearest-integer rounding (128-bit oracle), approxPhase/modSwitch consistency, encode/decode round trip, '
            'double conversion identity and periodicity. Holds within the bound "M in the list" - M is a per-query constant.',
            TRUST + '; IEEE-754 encoding of doubles in CBMC', 'bounded symbolic execution (clang IR -> C -> CBMC) + SAT/SMT portfolio', 'DESIGN.md section 4, C13'),
}

CLAIMED['C12'] = (
    'Every coefficient is an independent symbolic 32-bit word, so each query covers all 2^32 values at every position: digits in '
    '[-Bg/2,Bg/2), equal to an independent oracle digit, |x - sum d_p Bg^-p| < 2^(32-l*Bgbit) (0 when l*Bgbit=32), input polynomial '
    'bit-identical after the call, TLWE wrapper block layout, derived parameter fields; scalar code path and the AVX2 inline-asm path '
    '(rendered by asm2c, compared with the real instructions natively on every run). Bounds: valid (l,Bgbit) grid, N<=4 scalar, N in {8,16} AVX2.',
    TRUST + '; asm2c rendering of the three AVX2 loops', 'bounded symbolic execution (clang IR + inline asm -> C -> CBMC) + SAT portfolio', 'DESIGN.md section 4, C12')

CLAIMED['C11'] = (
    'All coefficient vectors symbolic: schoolbook and Karatsuba products (plain, accumulate, subtract) equal an independent negacyclic '
    'convolution mod 2^32 for N in {1,2,4,8,16} (quick; 16 is the first size at which Karatsuba recurses) and 32 (thorough); X^a and '
    'X^a-1 multiplication for every a in [0,2N) (symbolic for N<=4, enumerated for N=8,16) against an index/sign formula; group laws '
    'X^a X^b = X^(a+b mod 2N), X^N=-1; ten coefficient-wise routines with symbolic scalar p (INT32_MIN included), N<=8.',
    TRUST, 'bounded symbolic execution (clang IR -> C -> CBMC) + SAT/SMT portfolio (cvc5 integer encoding proves ring identities, SAT refutes)', 'DESIGN.md section 4, C11')

CLAIMED['C14'] = (
    'Samples, scalar and key coefficients symbolic (arbitrary int32 keys). LWE add/sub/addmul/submul/negate/copy/clear/trivial: '
    'coordinates and phase(out) = phase(c1) +- p*phase(c2) through the real lwePhase, n in 1..9; the AVX2 inline-asm subtraction '
    '(asm2c) for every n in 1..17 with bounds checks on; variance annotation formula with FP ops uninterpreted. TLWE operations over '
    'the exact ring back-end for N in {2,4}, k in {1,2,3}; (X^a-1) rotation and coefficient extraction in coordinates (index symbolic) '
    'and as phase identities (index enumerated), N<=8.',
    TRUST + '; A2: exact polynomial-product back-end (models/fft_ideal.cpp) where TLWE operations multiply polynomials; asm2c',
    'bounded symbolic execution (clang IR + inline asm -> C -> CBMC) + SAT/SMT portfolio', 'DESIGN.md section 4, C14')

CLAIMED['C08'] = (
    'Key switching decided in ciphertext coordinates on the real lweKeySwitch/lweKeySwitchTranslate_fromArray/lweSubTo code: with every '
    'input mask coefficient (all 2^32 values) and every key-switching row symbolic, the output equals (0,b) minus exactly the rows '
    'selected by the base-2^basebit digits of a_i + 2^(31-t*basebit) (64-bit oracle), row h=0 never read; on mask-free gadget rows the '
    'truncation is round-to-nearest |a - a~| <= 2^(31-t*basebit) for all 2^32 a; 3-level index of the contiguous array; key generation '
    'under an arbitrary-valued RNG stub: one recentred gaussian of the configured sigma and fresh full-range masks per row. Layout grid '
    'incl. the default (8,2); dimensions <= 3; <= 32 rows per query (quick).',
    TRUST + '; M-RNG stubs; FP ops uninterpreted in the key-generation query; the phase statement is the composition with C14 phase linearity (paper algebra, DESIGN.md section 4)',
    'bounded symbolic execution (clang IR -> C -> CBMC) + SAT/SMT portfolio', 'DESIGN.md section 4, C08')
CLAIMED['C19'] = (
    'lambda is one symbolic int32 (all 2^32 requests): 1..80 returns the documented 80-bit set, 81..128 the 128-bit set whose n and noise '
    'levels are re-read from README.md on each run, never the weaker set; every other lambda terminates (normal return unreachable) and '
    'in-range requests never terminate; derived fields through the real constructors; structural constraints; >= 12 sigma decoding margin '
    'from the CGGI19 noise formulas evaluated on the returned fields.',
    TRUST + '; noise formulas are the CGGI19 ones written in the harness', 'bounded symbolic execution (clang IR -> C -> CBMC) + SAT/SMT portfolio', 'DESIGN.md section 4, C19')

CLAIMED['C04'] = (
    'The whole bootstrapping chain of the real code (modulus switch, X^(2N-barb) rotation of the test polynomial, blind rotation with the real CMux '
    'steps / external products / gadget decomposition, coefficient-0 extraction, key switch) is executed symbolically for all four entry points and '
    'for blind-rotate-and-extract: input sample (a,b), output message, test polynomial, exponents and key bits symbolic; the result phase equals +-mu '
    '(resp. the p-th coefficient of the anticyclic extension of v) for all 2N values of p within one gadget truncation per CMux step, against a '
    'library-independent rounding formula. Bootstrapping key mask-free and noiseless; (N,n) in {(4,1),(2,2),(1,2)} quick, incl. n > N.',
    TRUST + '; A2 exact ring back-end; mask arithmetic of the same functions is decided under C09/C14/C08 (the accumulator masks stay zero here)',
    'bounded symbolic execution (clang IR -> C -> CBMC) + SAT portfolio', 'DESIGN.md section 4, C04')

CLAIMED['C09'] = (
    'Decided modularly in ciphertext coordinates on the real code: gadget rows (m*Bg^-(q+1) on the block diagonal, rest unchanged) for five '
    'routines; the three external products with every TGSW row an arbitrary symbolic TLWE sample and the decomposition replaced by free digits: '
    'out.a[i] = sum_p digit_p (*) row_p.a[i]; the CMux step result = ACC + ExtProd(bk_i,(X^a-1)ACC) with a symbolic over [1,2N); the rotation '
    'loop for every exponent vector in [0,2N)^n (one step per non-zero exponent, in order, alternating buffers, final copy-back for both '
    'parities); FFT image of TGSW samples and of the whole bootstrapping key incl. the key-switching copy; gadget linearity lemma.',
    TRUST + '; A2 exact ring back-end; callees replaced by recorders in the modular queries; the phase statement m*phase(c)+err is the composition with C12/C14 (paper algebra)',
    'bounded symbolic execution (clang IR -> C -> CBMC) + SAT/SMT portfolio', 'DESIGN.md section 4, C09')

CLAIMED['C03'] = (
    'Split so that floating point, mask cancellation and rounding never meet in one query: the sampler bound |gaussian32(m,s)-m| <= R s 2^32+1 on '
    'real IEEE doubles; phase(encrypt(m)) = m + e exactly for LWE (arbitrary int32 keys, masks = arbitrary RNG draws, n in {1,2,3,8}) and TLWE '
    '(polynomial and constant messages, N in {2,4}, k in {1,2}) with e the torus image of the one gaussian draw; approxPhase/modSwitch decode every '
    'm in [0,Msize) for every |e| < 2^31/Msize - 1 (ten moduli incl. non powers of two); decrypt = approxPhase o phase; TGSW decrypt of noisy rows '
    '(N=2); gate API both bits; trivial samples under arbitrary keys.',
    TRUST + '; A2 exact ring back-end; M-RNG stubs; FP ops uninterpreted in the encrypt->phase queries; Gaussian tails beyond 10 sigma are outside the claim',
    'bounded symbolic execution (clang IR -> C -> CBMC) + SAT/SMT portfolio', 'DESIGN.md section 4, C03')
CLAIMED['C01'] = (
    'The real code of all 14 gates (and bootsSymDecrypt) composed with the contracts of sign bootstrapping and key switching: per gate a coordinate query '
    '(arbitrary samples: exactly which linear combination, MU and key objects reach each bootstrapping / the MUX key switch; NOT/COPY/CONSTANT exact) '
    'and a scalar query (zero-mask samples through the same code: for every plaintext tuple and every input phase within 1/32 of +-1/8 the sign margin '
    '1/16 (1/8 for XOR/XNOR) holds at each bootstrapping, the output decrypts to the truth table and is again admissible; MUX within 3/64).',
    TRUST + '; A4: the contracts (bootstrapping correct with margin >= 1/16, output noise <= 1/32 resp. 1/64, key switch within 1/64) are statistical facts of C02/C04/C08 at the real parameter sets, assumed not decided; combination of the two queries uses C14 phase linearity',
    'bounded symbolic execution of the gate code with contract stubs (clang IR -> C -> CBMC) + SAT/SMT portfolio', 'DESIGN.md section 4, C01')

IO_NOTE = TRUST + '; A2; A3: the text layer of tfhe_generic_streams.cpp is replaced by atomic text records under CBMC (number format read from the repo source on every run), while validation and counterexample replay run natively against the REAL text layer and stream transports'
CLAIMED['C05'] = (
    'The real tfhe_io.cpp import/export code for all 14 object kinds of tiny dimensions with every coefficient symbolic, three sets of noise levels '
    '(incl. the default sets\' 2^-15, 2^-25, 7.18e-9, 2.44e-5) and one scalar query over ALL doubles of [1e-12,0.5] through the number formatter: '
    'field-for-field equality after import, stream fully and cleanly consumed, byte-identical re-export, four objects back to back; both transports.',
    IO_NOTE, 'bounded symbolic execution over an I/O channel model (clang IR -> C -> CBMC) + SAT/SMT portfolio', 'DESIGN.md section 4, C05')
CLAIMED['C17'] = (
    'For one fully symbolic key set: the cloud export is a strict prefix of the secret export, has exactly 5 text sections and the byte count '
    'given by the parameter formula (secret export = that + the two key sections), no fwrite of the cloud export reads from the LWE secret key '
    'storage, replacing both secret keys by other arbitrary values leaves the cloud bytes identical, and the cloud stream imports cleanly on its own.',
    IO_NOTE, 'bounded symbolic execution over an I/O channel model (clang IR -> C -> CBMC) + SAT/SMT portfolio', 'DESIGN.md section 4, C17')
CLAIMED['C18'] = (
    'For 13 importers: the complete export of a tiny object is cut inside every region in turn (text section = region, cut = section missing; binary '
    'run = region, cut at a symbolic byte offset); every normal return leaves the C++ stream failed and the C transport never returns normally; '
    '8 type-confusion pairs never return; CBMC bounds checks on throughout.',
    IO_NOTE + '; a virtual call on the null text-properties object terminates the process', 'bounded symbolic execution over an I/O channel model (clang IR -> C -> CBMC) + SAT/SMT portfolio', 'DESIGN.md section 4, C18')

CLAIMED['C15'] = (
    'Snapshot queries through the real evaluation chain (bootstrapping FFT and coefficient variants, blind rotation, blind-rotate-and-extract, key '
    'switch, extraction, three external products): every input object - sample, exponents, test polynomial, all TGSW / key-switching rows, FFT image, '
    'parameter tables - is bit-identical after the call, the generator word is unchanged and the recording RNG stub sees no draw. Alias queries: 13 '
    'gates x {result=a, =b, =c, a=b, all equal} give the same result as with a distinct output.',
    TRUST + '; A2; key material concrete pseudo-random in the whole-chain snapshot queries (symbolic in the single-step ones); gates composed with deterministic stand-ins for the three callees in the alias queries',
    'bounded symbolic execution (clang IR -> C -> CBMC) + SAT/SMT portfolio', 'DESIGN.md section 4, C15')
CLAIMED['C07'] = (
    'PARTIAL (structure, not statistics). With a recording RNG stub whose every draw is an arbitrary value of its range: keys are one {0,1} draw per '
    'coefficient; every mask coefficient of every fresh TGSW row / bootstrapping-key row is its own full-range uniform draw; every row phase equals its '
    'gadget message plus the torus image of exactly one gaussian draw whose sigma is the configured level (alpha argument, accumulator alpha_min for '
    'bootstrapping rows, input alpha_min for key-switching rows); no draw beyond those; all from the library generator. LWE/TLWE/gate ciphertexts: C03; '
    'key-switching key: C08.',
    TRUST + '; A2; M-RNG stubs; FP ops uninterpreted. NOT claimed (not decidable by a solver): uniformity, variance, kurtosis, key balance, seed reproducibility',
    'bounded symbolic execution with a recording RNG stub (clang IR -> C -> CBMC) + SAT/SMT portfolio', 'DESIGN.md section 4, C07')

CLAIMED['C16'] = (
    'PARTIAL (small configurations). CBMC pointer / bounds / free checks are on in every query of every property (incl. n > N, n < 8 on the AVX2 path, '
    'k = 2, layout grids); this check adds --memory-leak-check to: life cycles new..delete of every allocation-API type and array, key-switching / '
    'bootstrapping / FFT keys with real key generation, the gate-level API; the evaluation entry points (bootstrapping incl. n > N, external products, '
    'key switch, decomposition); construction + destruction of the real nayuki and spqlios FFT processor objects; the AVX2 inline-asm loops under bounds checks.',
    TRUST + '; A2; M-RNG stubs; FP ops uninterpreted for the processor objects. Outside: n = 500..1100 (same loops), the hand-written .s kernels, thread_local destructor scheduling by the C++ runtime, the fftw back-end',
    'bounded symbolic execution with CBMC memory-safety and leak instrumentation (clang IR + inline asm -> C -> CBMC) + SAT/SMT portfolio', 'DESIGN.md section 4, C16')

CLAIMED['C06'] = (
    'PARTIAL (two logical threads, two context switches, small processors). History independence: for every transform of the real nayuki and spqlios '
    'processor objects, two calls on the same symbolic input, each after an arbitrary overwrite of all scratch buffers, give bit-identical outputs '
    '(scalar and AVX2 inline-asm lowering). Per-thread processor: two logical threads call the public IntPolynomial_ifft / TorusPolynomial_ifft / '
    'TorusPolynomial_fft through the thread_local processor; thread-local storage is emulated with one slot per logical thread and thread B runs its '
    'whole call at every yield point of thread A (before each store, call and asm block; one query per point, all inputs symbolic): both outputs equal '
    'the sequential references bit for bit. Violations are replayed with two real threads on the real build. Per-call temporaries and the untouched '
    'generator: C16, C15.',
    TRUST + '; transform kernels (.s assembly / portable C model) replaced by an uninterpreted function of their whole buffer (nayuki kernel shown to leave its '
    'tables untouched); processor size 16 / 4 by textual substitution of the constructor argument in the lowered copy. Outside: > 2 threads, > 2 context '
    'switches, instruction-level interleavings, thread creation/destruction cycles, fftw back-end, data-race freedom in the C11 memory-model sense',
    'bounded symbolic execution with emulated thread-local storage and enumerated context-switch points (clang IR + inline asm -> C -> CBMC) + SAT portfolio',
    'DESIGN.md section 4, C06')

NOT_APPLICABLE = {
    'C02': 'statistical claim (mean/stdev/tail of the phase error of the real FFT pipeline at N=1024): a solver decides for-all/exists and the for-all version is false; its deterministic mechanisms are decided under C12, C08, C07, C19, C01',
    'C10': 'double-precision rounding error of 2048-point FFTs, three of five back-ends being hand-written AVX/FMA assembly or FFTW: bit-precise FP is out of solver reach beyond N~2 and a sound real-arithmetic over-approximation exceeds the stated 2 units',
    'C20': 'a comparison of build artefacts (nm -D symbol sets, sizeof/offsetof tables in C vs C++): there is no program behaviour to execute symbolically',
}
PENDING = {}

ALL = ['C%02d' % i for i in range(1, 21)]


def main():
    checks = []
    for pid in ALL:
        if pid in CLAIMED:
            text, note, tech, ref = CLAIMED[pid]
            checks.append({
                'property_id': pid,
                'quick_cmd': 'python3 symx/check.py %s --tier quick' % pid,
                'thorough_cmd': 'python3 symx/check.py %s --tier thorough' % pid,
                'evidence_file': 'evidence/%s.json' % pid,
                'replay_cmd_template': 'SYMX_EFENCE=1 SYMX_VALUES={path}/values.txt {path}/replay_real',
                'engine': 'symx',
                'level_claimed': {'category': 'model_checking', 'text': text, 'design_ref': ref},
                'level_note': note,
                'technique': tech,
            })
    na = []
    for pid in ALL:
        if pid in CLAIMED:
            continue
        if pid in NOT_APPLICABLE:
            na.append({'property_id': pid, 'reason': NOT_APPLICABLE[pid]})
        else:
            na.append({'property_id': pid, 'reason': PENDING.get(pid, 'check not built yet in this round (planned in DESIGN.md section 4); not claimed until it runs')})
    man = {
        'version': 1,
        'setup_cmd': 'python3 -m compileall -q symx tools && mkdir -p evidence',
        'hooks': {
            'guard': 'TFHE_VERIF',
            'enable': 'no source hooks are needed; checks pass -DTFHE_VERIF when lowering /repo sources with clang (no effect on the unchanged tree)',
            'baseline_off_cmd': 'cd /repo && rm -rf _build && cmake -G Ninja -B _build -S src -DENABLE_TESTS=on -DENABLE_FFTW=off -DCMAKE_BUILD_TYPE=debug && cmake --build _build && ctest --test-dir _build -j8 --timeout 900',
            'source_commits': [],
            'add_only': True,
        },
        'engines': [{
            'name': 'symx', 'path': 'symx/check.py', 'serves_properties': sorted(CLAIMED),
            'kind_free_text': 'clang-14 -O1 LLVM IR of the real /repo sources -> own IR->C translator (symx/ll2c.py, inline asm via symx/asm2c.py) -> CBMC 6.11 bounded symbolic execution -> SAT/SMT portfolio; counterexamples replayed on a g++ build of the real sources',
        }],
        'checks': checks,
        'not_applicable': na,
        'notes': 'All checks regenerate their encoding from /repo on every run. Exit 0 = every query holds within its stated bound; exit 1 + VIOLATION line = solver counterexample reproduced on the real build; exit 2 = inconclusive (timeout, vacuity, translator mismatch) - never reported as success.',
    }
    with open(os.path.join(VERIF, 'MANIFEST.json'), 'w') as f:
        json.dump(man, f, indent=1)
    try:
        import jsonschema
        jsonschema.validate(man, json.load(open('/root/.vp/MANIFEST.schema.json')))
        print('MANIFEST.json valid; claimed:', sorted(CLAIMED))
    except ImportError:
        print('MANIFEST.json written (jsonschema not available here)')


if __name__ == '__main__':
    main()
