"""asm2c -- renders the repo's GCC-style x86-64/AVX2 inline-asm blocks (as they appear in clang's IR:
`call {..} asm sideeffect "<template>", "<constraints>"(args)`) as C statements for ll2c.

Model: general registers are C variables, typed `uint8_t*` when they hold an address and `uint64_t`
otherwise (static inference over the block); ymm registers are 32-byte unions; memory operands are
accessed with memcpy of the architectural width, so CBMC's bounds checks see exactly the bytes the
instruction touches. Flags are modelled for `cmp/sub ; jb/jae/je/jne/...` pairs only.
Anything outside the supported mnemonic set is a hard error."""
import re

GP64 = ['rax', 'rbx', 'rcx', 'rdx', 'rsi', 'rdi', 'rbp', 'rsp', 'r8', 'r9', 'r10', 'r11', 'r12', 'r13', 'r14', 'r15']
SUB32 = {'eax': 'rax', 'ebx': 'rbx', 'ecx': 'rcx', 'edx': 'rdx', 'esi': 'rsi', 'edi': 'rdi'}
for i in range(8, 16):
    SUB32['r%dd' % i] = 'r%d' % i
CONS_REG = {'di': 'rdi', 'si': 'rsi', 'dx': 'rdx', 'ax': 'rax', 'cx': 'rcx', 'bx': 'rbx', 'D': 'rdi', 'S': 'rsi', 'd': 'rdx',
            'a': 'rax', 'c': 'rcx', 'b': 'rbx', 'r8': 'r8', 'r9': 'r9', 'r10': 'r10', 'r11': 'r11'}

_block_counter = [0]


class AsmError(Exception):
    pass


def parse_constraints(cons):
    outs, ins, clob = [], [], []
    for c in cons.split(','):
        if c.startswith('~'):
            clob.append(c[2:-1])
        elif c.startswith('='):
            outs.append(c[1:].lstrip('&'))
        else:
            ins.append(c)
    return outs, ins, clob


def creg(c):
    """constraint -> fixed register name or None"""
    m = re.match(r'^\{(\w+)\}$', c)
    if m:
        r = m.group(1)
        if r in CONS_REG:
            return CONS_REG[r]
        if r in GP64:
            return r
        raise AsmError('constraint register ' + r)
    if c in CONS_REG and len(c) == 1 and c not in ('r',):
        return CONS_REG[c]
    return None


def split_operands(s):
    out = []
    depth = 0
    cur = ''
    for ch in s:
        if ch == '(':
            depth += 1
        elif ch == ')':
            depth -= 1
        if ch == ',' and depth == 0:
            out.append(cur.strip())
            cur = ''
        else:
            cur += ch
    if cur.strip():
        out.append(cur.strip())
    return out


class Block:
    def __init__(self, em, ins, decl, func):
        self.em = em
        self.ins = ins
        self.decl = decl
        _block_counter[0] += 1
        self.id = _block_counter[0]
        self.pfx = 'A%d_' % self.id
        self.regty = {}  # reg -> 'ptr' | 'int'
        self.lines = []
        self.vec_used = set()

    # ---- register naming
    def R(self, r):
        return self.pfx + r

    def V(self, k):
        self.vec_used.add(k)
        return '%sy%d' % (self.pfx, k)

    def operand_reg(self, tok):
        """%rax / $0 -> canonical register key"""
        if tok.startswith('$') and tok[1:].isdigit():
            return self.opreg[int(tok[1:])]
        if tok.startswith('%'):
            r = tok[1:]
            if r in SUB32:
                return SUB32[r]
            return r
        raise AsmError('operand ' + tok)

    def is32(self, tok):
        return tok.startswith('%') and tok[1:] in SUB32

    def vecreg(self, tok):
        m = re.match(r'^%([xy])mm(\d+)$', tok)
        if not m:
            return None
        return m.group(1), int(m.group(2))

    def mem(self, tok):
        """(base) / disp(base) / (base,idx,scale) -> C pointer expression (uint8_t*)"""
        m = re.match(r'^(-?\d+|0x[0-9a-fA-F]+)?\(([^,)]+)(?:,([^,)]+)(?:,(\d+))?)?\)$', tok)
        if not m:
            return None
        disp, base, idx, scale = m.groups()
        b = self.operand_reg(base)
        e = self.R(b)
        if self.regty.get(b) != 'ptr':
            e = '((uint8_t*)(uintptr_t)%s)' % e
        if idx:
            i = self.operand_reg(idx)
            e = '(%s + (int64_t)%s * %s)' % (e, self.R(i), scale or '1')
        if disp:
            e = '(%s + (%s))' % (e, disp)
        return e

    def imm(self, tok):
        m = re.match(r'^\$\$(-?\d+|0x[0-9a-fA-F]+)$', tok)
        if not m:
            return None
        v = int(m.group(1), 0)
        return v & 0xFFFFFFFFFFFFFFFF

    # ---- translation
    def run(self):
        em, ins = self.em, self.ins
        outs, inps, clob = parse_constraints(ins['cons'])
        args = ins['args']
        nout = len(outs)
        rty = ins['ty']
        if nout == 0:
            out_tys = []
        elif nout == 1:
            out_tys = [rty]
        else:
            rr = em.m.resolve(rty)
            out_tys = list(rr[1])
        self.opreg = {}
        init = []
        free = ['r8', 'r9', 'r10', 'r11', 'r12', 'r13', 'r14', 'r15', 'rbx']
        used_fixed = set()
        for i, c in enumerate(outs):
            r = creg(c)
            if r:
                used_fixed.add(r)
        for c in inps:
            r = creg(c)
            if r:
                used_fixed.add(r)
        text = ins['tmpl']
        for r in GP64:
            if re.search(r'%%?%s\b' % r, text):
                used_fixed.add(r)
        for e32, r in SUB32.items():
            if re.search(r'%%?%s\b' % e32, text):
                used_fixed.add(r)
        free = [r for r in free if r not in used_fixed]
        for i, c in enumerate(outs):
            r = creg(c)
            if r is None:
                if c not in ('r', 'q', 'l'):
                    raise AsmError('output constraint ' + c)
                r = 'op%d' % i
            self.opreg[i] = r
            self.regty[r] = 'ptr' if em.m.resolve(out_tys[i])[0] == 'ptr' else 'int'
        for j, c in enumerate(inps):
            aty, av, info = args[j]
            isptr = em.m.resolve(aty)[0] == 'ptr'
            if c.isdigit():
                r = self.opreg[int(c)]
                self.opreg[nout + j] = r
            else:
                r = creg(c)
                if r is None:
                    if c not in ('r', 'q', 'l'):
                        raise AsmError('input constraint ' + c)
                    r = 'op%d' % (nout + j)
                self.opreg[nout + j] = r
            self.regty[r] = 'ptr' if isptr else 'int'
            v = em.val(aty, av)
            if isptr:
                init.append('%s = (uint8_t*)(%s);' % (self.R(r), v))
            else:
                w = aty[1]
                init.append('%s = (uint64_t)(%s);' % (self.R(r), v))
        # parse instructions
        prog = []
        for raw in re.split(r'[\n;]', text):
            s = raw.strip()
            while True:
                m = re.match(r'^(\d+):\s*(.*)$', s)
                if not m:
                    break
                prog.append(('label', m.group(1)))
                s = m.group(2).strip()
            if not s:
                continue
            m = re.match(r'^(\S+)\s*(.*)$', s)
            prog.append(('ins', m.group(1).lower(), split_operands(m.group(2))))
        # label resolution: Nb -> latest previous N, Nf -> next N
        labpos = {}
        count = {}
        for k, p in enumerate(prog):
            if p[0] == 'label':
                count[p[1]] = count.get(p[1], 0) + 1
                labpos[k] = '%sL%s_%d' % (self.pfx, p[1], count[p[1]])
        self.prog = prog
        self.labpos = labpos
        # type inference for scratch registers (fixed point, 3 passes are plenty for straight-line blocks)
        for _ in range(3):
            for p in prog:
                if p[0] != 'ins':
                    continue
                mn, ops = p[1], p[2]
                if mn in ('movq', 'mov') and len(ops) == 2 and not self.vecreg(ops[0]) and not self.vecreg(ops[1]) \
                        and not self.mem(ops[0]) and not self.mem(ops[1]) and self.imm(ops[0]) is None:
                    a, b = self.operand_reg(ops[0]), self.operand_reg(ops[1])
                    if a in self.regty:
                        self.regty.setdefault(b, self.regty[a])
                elif mn in ('leaq', 'lea'):
                    m = re.match(r'^(-?\d+)?\(([^,)]+)', ops[0])
                    b = self.operand_reg(m.group(2))
                    d = self.operand_reg(ops[1])
                    self.regty[d] = self.regty.get(b, 'int')
                elif mn in ('andq', 'movl', 'subl', 'addl', 'xorq', 'xorl', 'shrq', 'shlq'):
                    d = self.operand_reg(ops[-1]) if not self.mem(ops[-1]) else None
                    if d and d not in self.regty:
                        self.regty[d] = 'int'
        for mm in re.finditer(r'%[xy]mm(\d+)', text.lower()):
            self.vec_used.add(int(mm.group(1)))
        body = []
        self.flags = None
        for k, p in enumerate(prog):
            if p[0] == 'label':
                body.append('%s: ;' % labpos[k])
                continue
            body.append(self.instr(k, p[1], p[2]))
        # declarations
        for r, t in self.regty.items():
            self.decl[self.R(r)] = 'uint8_t*' if t == 'ptr' else 'uint64_t'
        for k in sorted(self.vec_used):
            self.decl['%sy%d' % (self.pfx, k)] = 'union symx_vec'
        res = []
        n = em.lname(ins['dst']) if ins['dst'] else None
        if n and nout:
            self.decl[n] = em.cty(rty)
        for i in range(nout):
            r = self.opreg[i]
            src = self.R(r)
            T = em.cty(out_tys[i])
            if em.m.resolve(out_tys[i])[0] == 'ptr':
                e = '(%s)%s' % (T, src)
            else:
                e = '(%s)%s' % (T, src)
            if nout == 1:
                res.append('%s = %s;' % (n, e))
            else:
                res.append('%s.f%d = %s;' % (n, i, e))
        return '/* inline asm block %d */ { %s\n    %s\n    %s }' % (self.id, ' '.join(init), '\n    '.join(body), ' '.join(res))

    def find_label(self, k, ref):
        m = re.match(r'^(\d+)([bf])$', ref)
        if not m:
            raise AsmError('jump target ' + ref)
        name, d = m.groups()
        if d == 'b':
            for j in range(k - 1, -1, -1):
                if self.prog[j] == ('label', name):
                    return self.labpos[j]
        else:
            for j in range(k + 1, len(self.prog)):
                if self.prog[j] == ('label', name):
                    return self.labpos[j]
        raise AsmError('label not found ' + ref)

    def instr(self, k, mn, ops):
        R = self.R
        # ---------------- general purpose
        if mn in ('movq', 'mov') and len(ops) == 2 and (self.vecreg(ops[0]) or self.vecreg(ops[1])):
            # legacy SSE movq xmm <-> m64
            if self.vecreg(ops[1]) and self.mem(ops[0]):
                x, n = self.vecreg(ops[1])
                v = self.V(n)
                return 'memcpy(&%s.q[0], %s, 8); %s.q[1] = 0;' % (v, self.mem(ops[0]), v)
            if self.vecreg(ops[0]) and self.mem(ops[1]):
                x, n = self.vecreg(ops[0])
                return 'memcpy(%s, &%s.q[0], 8);' % (self.mem(ops[1]), self.V(n))
            raise AsmError('movq form ' + str(ops))
        if mn in ('movq', 'mov'):
            a, b = ops
            if self.imm(a) is not None:
                return '%s = (uint64_t)%dULL;' % (R(self.operand_reg(b)), self.imm(a))
            if self.mem(a):
                d = self.operand_reg(b)
                if self.regty.get(d) == 'ptr':
                    return 'memcpy(&%s, %s, 8);' % (R(d), self.mem(a))
                return 'memcpy(&%s, %s, 8);' % (R(d), self.mem(a))
            if self.mem(b):
                return 'memcpy(%s, &%s, 8);' % (self.mem(b), R(self.operand_reg(a)))
            sa, sb = self.operand_reg(a), self.operand_reg(b)
            if self.regty.get(sa) == 'ptr' and self.regty.get(sb) == 'int':
                return '%s = (uint64_t)(uintptr_t)%s;' % (R(sb), R(sa))
            return '%s = %s;' % (R(sb), R(sa))
        if mn == 'movl':
            a, b = ops
            if self.mem(a):
                d = self.operand_reg(b)
                return '{ uint32_t t_; memcpy(&t_, %s, 4); %s = (uint64_t)t_; }' % (self.mem(a), R(d))
            if self.mem(b):
                s = self.operand_reg(a)
                return '{ uint32_t t_ = (uint32_t)%s; memcpy(%s, &t_, 4); }' % (R(s), self.mem(b))
            return '%s = (uint64_t)(uint32_t)%s;' % (R(self.operand_reg(b)), R(self.operand_reg(a)))
        if mn in ('subl', 'addl'):
            a, b = ops
            o = '-' if mn == 'subl' else '+'
            d = self.operand_reg(b)
            src = '%dU' % (self.imm(a) & 0xFFFFFFFF) if self.imm(a) is not None else '(uint32_t)%s' % R(self.operand_reg(a))
            self.flags = None
            return '%s = (uint64_t)(uint32_t)((uint32_t)%s %s %s);' % (R(d), R(d), o, src)
        if mn == 'andq':
            a, b = ops
            d = self.operand_reg(b)
            src = '%dULL' % self.imm(a) if self.imm(a) is not None else R(self.operand_reg(a))
            if self.regty.get(d) == 'ptr':
                raise AsmError('andq on address register')
            return '%s = %s & %s;' % (R(d), R(d), src)
        if mn in ('leaq', 'lea'):
            return '%s = %s;' % (R(self.operand_reg(ops[1])), self.mem(ops[0]))
        if mn in ('addq', 'subq'):
            a, b = ops
            d = self.operand_reg(b)
            sign = 1 if mn == 'addq' else -1
            if self.imm(a) is not None:
                v = self.imm(a)
                if v >= 1 << 63:
                    v -= 1 << 64
                if self.regty.get(d) == 'ptr':
                    return '%s = %s + (%d);' % (R(d), R(d), sign * v)
                return '%s = %s %s %dULL;' % (R(d), R(d), '+' if sign > 0 else '-', v)
            s = self.operand_reg(a)
            if self.regty.get(d) == 'ptr':
                return '%s = %s %s (int64_t)%s;' % (R(d), R(d), '+' if sign > 0 else '-', R(s))
            return '%s = %s %s %s;' % (R(d), R(d), '+' if sign > 0 else '-', R(s))
        if mn == 'cmpq':
            a, b = ops  # flags of (b - a)
            y = self.operand_reg(b)
            if self.imm(a) is not None:
                self.flags = ('cmp', R(y), '%dULL' % self.imm(a), self.regty.get(y))
            else:
                x = self.operand_reg(a)
                self.flags = ('cmp', R(y), R(x), self.regty.get(y), self.regty.get(x))
            return '/* cmpq %s,%s */' % (a, b)
        if mn in ('jb', 'jae', 'je', 'jne', 'jz', 'jnz', 'ja', 'jbe', 'jnb', 'jc', 'jnc'):
            if not self.flags or self.flags[0] != 'cmp':
                raise AsmError('conditional jump without a preceding cmpq')
            y, x = self.flags[1], self.flags[2]
            if self.flags[3] == 'ptr' and len(self.flags) > 4 and self.flags[4] != 'ptr':
                x = '((uint8_t*)(uintptr_t)%s)' % x
            if self.flags[3] != 'ptr' and len(self.flags) > 4 and self.flags[4] == 'ptr':
                y = '((uint8_t*)(uintptr_t)%s)' % y
            cond = {'jb': '%s < %s', 'jc': '%s < %s', 'jae': '%s >= %s', 'jnb': '%s >= %s', 'jnc': '%s >= %s', 'je': '%s == %s',
                    'jz': '%s == %s', 'jne': '%s != %s', 'jnz': '%s != %s', 'ja': '%s > %s', 'jbe': '%s <= %s'}[mn] % (y, x)
            return 'if (%s) goto %s;' % (cond, self.find_label(k, ops[0]))
        if mn == 'jmp':
            return 'goto %s;' % self.find_label(k, ops[0])
        # ---------------- vector
        if mn == 'vzeroupper':
            return ' '.join('%s.q[2] = 0; %s.q[3] = 0;' % (self.V(i), self.V(i)) for i in sorted(self.vec_used))
        if mn == 'vmovq':
            a, b = ops
            if self.vecreg(b) and self.mem(a):
                x, n = self.vecreg(b)
                v = self.V(n)
                return 'memset(&%s, 0, 32); memcpy(&%s.q[0], %s, 8);' % (v, v, self.mem(a))
            if self.vecreg(a) and self.mem(b):
                x, n = self.vecreg(a)
                return 'memcpy(%s, &%s.q[0], 8);' % (self.mem(b), self.V(n))
            if self.vecreg(a) and self.vecreg(b):
                (xa, na), (xb, nb) = self.vecreg(a), self.vecreg(b)
                return '{ uint64_t t_ = %s.q[0]; memset(&%s, 0, 32); %s.q[0] = t_; }' % (self.V(na), self.V(nb), self.V(nb))
            if self.vecreg(b):
                x, n = self.vecreg(b)
                v = self.V(n)
                return 'memset(&%s, 0, 32); %s.q[0] = (uint64_t)%s;' % (v, v, R(self.operand_reg(a)))
            x, n = self.vecreg(a)
            return '%s = %s.q[0];' % (R(self.operand_reg(b)), self.V(n))
        if mn == 'vzeroall':
            return ' '.join('memset(&%s, 0, 32);' % self.V(i) for i in sorted(self.vec_used))
        if mn in ('vmovdqu', 'vmovupd', 'vmovapd', 'vmovdqa', 'vmovups', 'vmovaps'):
            a, b = ops
            if self.vecreg(b) and self.mem(a):
                x, n = self.vecreg(b)
                v = self.V(n)
                if x == 'y':
                    return 'memcpy(&%s, %s, 32);' % (v, self.mem(a))
                return 'memcpy(&%s, %s, 16); %s.q[2] = 0; %s.q[3] = 0;' % (v, self.mem(a), v, v)
            if self.vecreg(a) and self.mem(b):
                x, n = self.vecreg(a)
                return 'memcpy(%s, &%s, %d);' % (self.mem(b), self.V(n), 32 if x == 'y' else 16)
            if self.vecreg(a) and self.vecreg(b):
                (xa, na), (xb, nb) = self.vecreg(a), self.vecreg(b)
                if xa == 'y':
                    return '%s = %s;' % (self.V(nb), self.V(na))
                return '%s = %s; %s.q[2] = 0; %s.q[3] = 0;' % (self.V(nb), self.V(na), self.V(nb), self.V(nb))
            raise AsmError(mn + ' form')
        if mn in ('vpaddd', 'vpsubd'):
            s2, s1, d = ops  # d = s1 op s2
            (x2, n2), (x1, n1), (xd, nd) = self.vecreg(s2), self.vecreg(s1), self.vecreg(d)
            o = '+' if mn == 'vpaddd' else '-'
            lanes = 8 if xd == 'y' else 4
            st = ' '.join('%s.d[%d] = %s.d[%d] %s %s.d[%d];' % (self.V(nd), i, self.V(n1), i, o, self.V(n2), i) for i in range(lanes))
            if xd == 'x':
                st += ' %s.q[2] = 0; %s.q[3] = 0;' % (self.V(nd), self.V(nd))
            return st
        if mn == 'psubd' or mn == 'paddd':
            s, d = ops
            (xs, ns), (xd, nd) = self.vecreg(s), self.vecreg(d)
            o = '-' if mn == 'psubd' else '+'
            return ' '.join('%s.d[%d] = %s.d[%d] %s %s.d[%d];' % (self.V(nd), i, self.V(nd), i, o, self.V(ns), i) for i in range(4))
        if mn == 'vpsrld':
            c, s, d = ops
            (xc, nc), (xs, ns), (xd, nd) = self.vecreg(c), self.vecreg(s), self.vecreg(d)
            lanes = 8 if xd == 'y' else 4
            cnt = '%s.q[0]' % self.V(nc)
            return ' '.join('%s.d[%d] = (%s > 31) ? 0u : (%s.d[%d] >> (uint32_t)%s);' % (self.V(nd), i, cnt, self.V(ns), i, cnt)
                            for i in range(lanes))
        if mn in ('vpand', 'vpxor', 'vpor'):
            s2, s1, d = ops
            (x2, n2), (x1, n1), (xd, nd) = self.vecreg(s2), self.vecreg(s1), self.vecreg(d)
            o = {'vpand': '&', 'vpxor': '^', 'vpor': '|'}[mn]
            lanes = 4 if xd == 'y' else 2
            st = ' '.join('%s.q[%d] = %s.q[%d] %s %s.q[%d];' % (self.V(nd), i, self.V(n1), i, o, self.V(n2), i) for i in range(lanes))
            if xd == 'x':
                st += ' %s.q[2] = 0; %s.q[3] = 0;' % (self.V(nd), self.V(nd))
            return st
        if mn == 'vpbroadcastd':
            a, d = ops
            xd, nd = self.vecreg(d)
            lanes = 8 if xd == 'y' else 4
            if self.mem(a):
                src = '{ uint32_t t_; memcpy(&t_, %s, 4); ' % self.mem(a)
            else:
                xa, na = self.vecreg(a)
                src = '{ uint32_t t_ = %s.d[0]; ' % self.V(na)
            st = src + ' '.join('%s.d[%d] = t_;' % (self.V(nd), i) for i in range(lanes))
            if xd == 'x':
                st += ' %s.q[2] = 0; %s.q[3] = 0;' % (self.V(nd), self.V(nd))
            return st + ' }'
        if mn == 'vbroadcastsd':
            a, d = ops
            xd, nd = self.vecreg(d)
            if self.mem(a):
                src = '{ uint64_t t_; memcpy(&t_, %s, 8); ' % self.mem(a)
            else:
                xa, na = self.vecreg(a)
                src = '{ uint64_t t_ = %s.q[0]; ' % self.V(na)
            return src + ' '.join('%s.q[%d] = t_;' % (self.V(nd), i) for i in range(4)) + ' }'
        if mn == 'vmovd':
            a, d = ops
            if self.vecreg(d) and self.mem(a):
                xd, nd = self.vecreg(d)
                v = self.V(nd)
                return 'memset(&%s, 0, 32); memcpy(&%s.d[0], %s, 4);' % (v, v, self.mem(a))
            if self.vecreg(d):
                xd, nd = self.vecreg(d)
                v = self.V(nd)
                return 'memset(&%s, 0, 32); %s.d[0] = (uint32_t)%s;' % (v, v, R(self.operand_reg(a)))
            if self.vecreg(a) and self.mem(d):
                xa, na = self.vecreg(a)
                return 'memcpy(%s, &%s.d[0], 4);' % (self.mem(d), self.V(na))
            if self.vecreg(a):
                xa, na = self.vecreg(a)
                return '%s = (uint64_t)%s.d[0];' % (R(self.operand_reg(d)), self.V(na))
            raise AsmError('vmovd form')
        if mn == 'vcvtdq2pd':
            a, d = ops
            (xa, na), (xd, nd) = self.vecreg(a), self.vecreg(d)
            lanes = 4 if xd == 'y' else 2
            tmp = '{ union symx_vec t_ = %s; ' % self.V(na)
            st = tmp + ' '.join('%s.pd[%d] = (double)(int32_t)t_.d[%d];' % (self.V(nd), i, i) for i in range(lanes))
            if xd == 'x':
                st += ' %s.q[2] = 0; %s.q[3] = 0;' % (self.V(nd), self.V(nd))
            return st + ' }'
        if mn == 'vcvtsi2sd':
            a, s1, d = ops
            (x1, n1), (xd, nd) = self.vecreg(s1), self.vecreg(d)
            src = '(double)(int32_t)(uint32_t)%s' % R(self.operand_reg(a)) if self.is32(a) else '(double)(int64_t)%s' % R(self.operand_reg(a))
            v = self.V(nd)
            return '{ uint64_t hi_ = %s.q[1]; %s.pd[0] = %s; %s.q[1] = hi_; %s.q[2] = 0; %s.q[3] = 0; }' % (self.V(n1), v, src, v, v, v)
        if mn in ('vmulpd', 'vaddpd', 'vsubpd'):
            s2, s1, d = ops
            (x2, n2), (x1, n1), (xd, nd) = self.vecreg(s2), self.vecreg(s1), self.vecreg(d)
            o = {'vmulpd': '*', 'vaddpd': '+', 'vsubpd': '-'}[mn]
            lanes = 4 if xd == 'y' else 2
            st = ' '.join('%s.pd[%d] = %s.pd[%d] %s %s.pd[%d];' % (self.V(nd), i, self.V(n1), i, o, self.V(n2), i) for i in range(lanes))
            if xd == 'x':
                st += ' %s.q[2] = 0; %s.q[3] = 0;' % (self.V(nd), self.V(nd))
            return st
        raise AsmError('unsupported mnemonic %s %s' % (mn, ops))


def handler(em, ins, decl, func):
    b = Block(em, ins, decl, func)
    return b.run()
