/* Native runtime for harnesses and for ll2c-generated C.
 *
 * Two modes, selected by environment:
 *   SYMX_VALUES=<file>   replay: nondet_* return the values of a solver counterexample, in call
 *                        order (one "<width> <hexbits>" per line); exit 1 if a CHECK fails,
 *                        0 if none fails, 77 if an ASSUME is false (counterexample not faithful).
 *   SYMX_SWEEP=<n>       validation: run the entry point for seeds SYMX_SEED..+n-1 with a biased
 *                        PRNG, print a log line per seed: assume-failure, OBSERVE values and
 *                        CHECK outcomes.  Two builds (real sources vs generated C) must print
 *                        identical logs.
 */
#include <stdio.h>
#include <stdlib.h>
#include <stdint.h>
#include <string.h>
#include <setjmp.h>
#include <signal.h>
#include <vector>
#include <string>

extern "C" {
uint32_t symx_terminated __attribute__((weak)) = 0;
void SYMX_ENTRY(void);
}

static std::vector<std::pair<int, uint64_t>> g_values;
static size_t g_pos = 0;
static int g_mode = 0; /* 1 replay, 2 sweep */
static uint64_t g_rng;
static jmp_buf g_jmp;
static sigjmp_buf g_sjmp;
static uint64_t g_hash;
static int g_fail;
static std::string g_firstfail;
static int g_observes;

static uint64_t rng64() {
    g_rng ^= g_rng << 13;
    g_rng ^= g_rng >> 7;
    g_rng ^= g_rng << 17;
    return g_rng;
}

static uint64_t biased(int width) {
    uint64_t r = rng64();
    uint64_t mask = width >= 64 ? ~0ULL : ((1ULL << width) - 1);
    unsigned sel = (r >> 56) & 15;
    uint64_t v = rng64();
    switch (sel) {
        case 0: return 0;
        case 1: return 1 & mask;
        case 2: return mask;                       /* -1 */
        case 3: return (1ULL << (width - 1)) & mask; /* INT_MIN */
        case 4: return ((1ULL << (width - 1)) - 1) & mask; /* INT_MAX */
        case 5: case 6: return v & 7;                /* tiny */
        case 7: return (v & 0xff) & mask;
        case 8: return (1ULL << (v % width)) & mask; /* power of two */
        case 9: return ((1ULL << (v % width)) - 1) & mask;
        case 10: return (0 - (v & 0xff)) & mask;     /* small negative */
        default: return v & mask;
    }
}

static uint64_t next_value(int width) {
    if (g_mode == 1) {
        if (g_pos < g_values.size()) return g_values[g_pos++].second;
        return 0;
    }
    return biased(width);
}

static void mix(uint64_t x) {
    g_hash = (g_hash ^ x) * 0x100000001b3ULL;
    g_hash ^= g_hash >> 29;
}

extern "C" {
int32_t nondet_i32(void) { return (int32_t) next_value(32); }
uint32_t nondet_u32(void) { return (uint32_t) next_value(32); }
int64_t nondet_i64(void) { return (int64_t) next_value(64); }
uint64_t nondet_u64(void) { return next_value(64); }
uint8_t nondet_u8(void) { return (uint8_t) next_value(8); }
uint16_t nondet_u16(void) { return (uint16_t) next_value(16); }
double nondet_f64(void) {
    uint64_t b = next_value(64);
    if (g_mode != 1) {
        /* sweep: mostly "reasonable" doubles */
        uint64_t r = rng64();
        if ((r & 3) != 0) {
            int e = (int) (r >> 8) % 80 - 60;
            double m = (double) (int64_t) (b >> 11) / 9007199254740992.0;
            double d = m;
            for (int i = 0; i < (e < 0 ? -e : e); i++) d = e < 0 ? d / 2 : d * 2;
            return (r & 4) ? -d : d;
        }
    }
    double d;
    memcpy(&d, &b, 8);
    return d;
}
void symx_native_assume(int c) {
    if (!c) {
        if (g_mode == 1) {
            printf("ASSUME-FALSE (counterexample does not satisfy the harness assumptions natively)\n");
            exit(77);
        }
        longjmp(g_jmp, 1);
    }
}
void symx_native_assert(int c, const char *msg) {
    mix(c ? 0x9e37 : 0x1234);
    if (!c) {
        if (!g_fail) g_firstfail = msg;
        g_fail++;
        if (g_mode == 1) printf("CHECK-FAILED %s\n", msg);
    }
}
/* harness objects compiled with -DSYMX_NATIVE call these directly */
void __CPROVER_assume(bool c) { symx_native_assume(c); }
void __CPROVER_assert(bool c, const char *msg) { symx_native_assert(c, msg); }
/* native stand-in for the checker's uninterpreted digest function (harness/FFTP.cpp): any fixed function will do */
uint64_t __CPROVER_uninterpreted_xf(uint64_t tag, uint64_t d, uint64_t c0, uint64_t c1, uint64_t c2, uint64_t c3, uint64_t c4, uint64_t c5, uint64_t c6,
                                    uint64_t c7, uint64_t c8, uint64_t c9, uint64_t c10, uint64_t c11, uint64_t c12, uint64_t c13, uint64_t c14) {
    uint64_t v[17] = {tag, d, c0, c1, c2, c3, c4, c5, c6, c7, c8, c9, c10, c11, c12, c13, c14};
    uint64_t h = 0xcbf29ce484222325ULL;
    for (int i = 0; i < 17; i++) { h = (h ^ v[i]) * 0x100000001b3ULL; h ^= h >> 31; }
    return h;
}
void symx_witness(void) {}
void symx_run_ctors(void) __attribute__((weak));
void symx_run_ctors(void) {}
void symx_observe(uint64_t x) { g_observes++; mix(x); }
void symx_native_terminate(void) {
    /* reached from abort()/exit() interposers: a terminated path */
    if (g_mode == 1) {
        printf("TERMINATED\n");
        exit(g_fail ? 1 : 0);
    }
    longjmp(g_jmp, 1);
}
}

/* ---- guard-page allocator (SYMX_EFENCE=1, replay mode): every block ends at a PROT_NONE page, so that an
 * overrun by C++ code *or by inline/hand-written assembly* (invisible to ASan) faults at the first byte ---- */
#include <sys/mman.h>
extern "C" {
void *__libc_malloc(size_t);
void __libc_free(void *);
void *__libc_calloc(size_t, size_t);
void *__libc_realloc(void *, size_t);
}
static int g_efence = -1;
struct EfEntry { char *user; char *base; size_t len; size_t n; };
static EfEntry g_ef[1 << 16];
static int g_efn = 0;
static int ef_on() {
    if (g_efence < 0) g_efence = getenv("SYMX_EFENCE") ? 1 : 0;
    return g_efence;
}
static void *ef_alloc(size_t n) {
    size_t n4 = (n + 3) & ~(size_t) 3;
    if (n4 == 0) n4 = 4;
    size_t data = (n4 + 4095) & ~(size_t) 4095;
    size_t len = data + 4096;
    char *base = (char *) mmap(0, len, PROT_READ | PROT_WRITE, MAP_PRIVATE | MAP_ANONYMOUS, -1, 0);
    if (base == (char *) MAP_FAILED) return 0;
    mprotect(base + data, 4096, PROT_NONE);
    char *user = base + data - n4;
    if (g_efn < (1 << 16)) { g_ef[g_efn].user = user; g_ef[g_efn].base = base; g_ef[g_efn].len = len; g_ef[g_efn].n = n; g_efn++; }
    return user;
}
static EfEntry *ef_find(void *p) {
    for (int i = g_efn - 1; i >= 0; i--) if (g_ef[i].user == (char *) p) return &g_ef[i];
    return 0;
}
extern "C" void *malloc(size_t n) { return ef_on() ? ef_alloc(n) : __libc_malloc(n); }
extern "C" void *calloc(size_t a, size_t b) { return ef_on() ? ef_alloc(a * b) : __libc_calloc(a, b); }
extern "C" void free(void *p) {
    if (!p) return;
    EfEntry *e = ef_find(p);
    if (e) { mprotect(e->base, e->len, PROT_NONE); e->user = 0; return; }   /* use-after-free faults too */
    if (!ef_on()) __libc_free(p);
}
extern "C" void *realloc(void *p, size_t n) {
    EfEntry *e = p ? ef_find(p) : 0;
    if (!e && !ef_on()) return __libc_realloc(p, n);
    void *q = ef_alloc(n);
    if (p && e) { memcpy(q, p, e->n < n ? e->n : n); free(p); }
    return q;
}

/* the library's die_dramatically()/assert() end in abort(): a terminated path */
extern "C" void abort(void) {
    symx_terminated = 1;
    symx_native_terminate();
    _Exit(3);
}

int main(int argc, char **argv) {
    const char *vf = getenv("SYMX_VALUES");
    const char *sw = getenv("SYMX_SWEEP");
    const char *sd = getenv("SYMX_SEED");
    uint64_t seed = sd ? strtoull(sd, 0, 10) : 1;
    if (vf) {
        g_mode = 1;
        FILE *f = fopen(vf, "r");
        if (!f) { perror(vf); return 2; }
        int w; char hex[64];
        while (fscanf(f, "%d %63s", &w, hex) == 2) g_values.push_back({w, strtoull(hex, 0, 16)});
        fclose(f);
        g_fail = 0;
        int live0 = 0;
        for (int i = 0; i < g_efn; i++) if (g_ef[i].user) live0++;
        int mark = g_efn;
        SYMX_ENTRY();
        if (getenv("SYMX_LEAKCHECK") && ef_on()) {
            /* blocks allocated by the entry point and never freed (guard-page allocator table) */
            int leaked = 0; size_t bytes = 0;
            for (int i = mark; i < g_efn; i++) if (g_ef[i].user) { leaked++; bytes += g_ef[i].n; }
            if (leaked) { printf("CHECK-FAILED memory leak: %d block(s), %zu bytes allocated during the call are still live\n", leaked, bytes); g_fail++; }
        }
        printf("REPLAY-DONE fails=%d consumed=%zu/%zu\n", g_fail, g_pos, g_values.size());
        return g_fail ? 1 : 0;
    }
    g_mode = 2;
    /* a null-object call (truncated text section) kills the real process with SIGSEGV: in sweep mode that is a terminated path */
    struct sigaction sa;
    memset(&sa, 0, sizeof sa);
    sa.sa_handler = [](int) { siglongjmp(g_sjmp, 1); };
    sa.sa_flags = SA_NODEFER;
    sigaction(SIGSEGV, &sa, 0);
    long n = sw ? atol(sw) : 100;
    long ok = 0;
    for (long s = 0; s < n; s++) {
        g_rng = (seed + s) * 0x9E3779B97F4A7C15ULL + 0x1234567;
        rng64(); rng64();
        g_hash = 0xcbf29ce484222325ULL;
        g_fail = 0;
        g_observes = 0;
        g_firstfail.clear();
        int j = setjmp(g_jmp);
        if (j == 0) j = sigsetjmp(g_sjmp, 1);
        if (j == 0) {
            SYMX_ENTRY();
            printf("seed %ld done obs=%d fails=%d hash=%016llx %s\n", s, g_observes, g_fail,
                   (unsigned long long) g_hash, g_firstfail.c_str());
            ok++;
        } else if (j == 2) {
            printf("seed %ld terminated obs=%d hash=%016llx\n", s, g_observes, (unsigned long long) g_hash);
        }
        /* assume-failed seeds print nothing (both builds skip them identically or the logs differ) */
    }
    printf("SWEEP completed=%ld of %ld\n", ok, n);
    return 0;
}
