from engine import Query

FFTDIR = '/repo/src/libtfhe/fft_processors'
NAYUKI = [FFTDIR + '/nayuki/fft_processor_nayuki.cpp', FFTDIR + '/nayuki/fft-x8664-avx-aux.c', FFTDIR + '/nayuki/fft-model-of-x8664-avx.c']
SPQLIOS = [FFTDIR + '/spqlios/fft_processor_spqlios.cpp', FFTDIR + '/spqlios/spqlios-fft-impl.cpp']
META = {
    'bounds': 'a. history independence of the real processor objects (mechanism 4): for execute_reverse_int / execute_reverse_torus32 / '
              'execute_direct_torus32, two calls on the same symbolic input, each preceded by an arbitrary overwrite of every scratch buffer, give '
              'bit-identical outputs; nayuki N=8 (thorough 4,8,16), spqlios N=16 in the scalar and in the AVX2 lowering (inline-asm loops through '
              'asm2c). The transform kernels are replaced by an uninterpreted function of ALL the cells they are given (modular query); for nayuki '
              'the real kernel (portable C model of the AVX code, N=4; thorough 4,8) is shown to leave its precomputed tables bit-identical. '
              'b. per-thread processor (mechanism 1): two logical threads call the public entry points IntPolynomial_ifft / TorusPolynomial_ifft / '
              'TorusPolynomial_fft, which reach the thread_local processor of the back-end (built on first use, per thread; its size argument 1024 replaced by '
              '16 / 4 in the copy of the source that is lowered - no other change). The thread system is emulated in the encoding: every thread_local variable has one slot per logical '
              'thread, and thread B runs its whole call at a yield point of thread A - before any store, call or inline-asm block of the entry '
              'points and execute_* functions. One query per yield point (B exactly there, all inputs symbolic) plus one query for all later points '
              'and "B after A": together every schedule of the two calls with at most two context switches. Both outputs must equal the '
              'sequential references bit for bit. quick: entry-point pairs that use the same scratch buffer; thorough: all 9 pairs. '
              'b2. thread life cycle: the first FFT-using logical thread ends (the thread_local destructors the compiler registered with '
              '__cxa_thread_atexit run), another thread evaluates and ends: pointer checks, leak check, same output; for nayuki also with the real '
              'portable transform kernel (memory safety and leaks only). '
              'c/e. per-call temporaries and no use of the global generator by evaluation are decided under C16 (every temporary allocated by a '
              'call is freed by it) and C15 (inputs and generator untouched).',
    'outside': 'schedules with more than two context switches, more than two threads, true hardware interleavings of individual instructions of '
               'both calls, repeated creation of threads on a reused thread-local slot, '
               'the fftw back-end (library not present in this image), the hand-written assembly kernels (replaced by an uninterpreted function of '
               'their whole buffer; they use no memory besides tables and buffer by inspection only), 1024-point processors, whole gates or a '
               'whole bootstrapping on two threads (their thread-relevant state is exactly the processor and the per-call temporaries).',
    'assumptions': ['transform kernels: deterministic functions of (tables, buffer) that may read and write every buffer cell',
                    'cos/sin arbitrary', 'asm2c rendering of the spqlios inline-asm loops (validated natively on this AVX2 host)',
                    'object bases are 32-byte aligned (the checker\'s address model; SYMX_ALIGN_PAD)',
                    'violations of the two-thread queries are replayed on the real build with two real threads running the two calls 20000 times'],
}
SAT = ('minisat', 'kissat', 'cadical', 'z3')
XF = ['execute_reverse_int', 'execute_reverse_torus32', 'execute_direct_torus32']


# yield points of thread A's call that get a query of their own (B runs exactly there), per entry point; one more query covers every later point at once
NSITES = {'spqlios': (4, 4, 20), 'nayuki': (24, 24, 24)}
SAT2 = ('cadical', 'kissat')
NSTUBS = {'fft_transform': 'stub_fft_transform', 'fft_transform_reverse': 'stub_fft_transform_reverse'}


def queries(tier, seed):
    out = []
    inc = ['-I' + FFTDIR + '/nayuki']
    for N in (4, 8, 16) if tier == 'thorough' else (8,):
        for x, name in enumerate(XF):
            out.append(Query('C06.h_history_independent.nayuki.%s[N=%d]' % (name, N), 'FFTP.cpp', 'h_history_independent', {'PN': N, 'PROC': 0, 'XFORM': x},
                             libs=NAYUKI, stubs=NSTUBS, lowering='scalar-ndebug', unwind=4 * N + 8, backends=SAT, cap=900, cflags=inc, validate=(x == 0)))
    for N in (4, 8) if tier == 'thorough' else (4,):
        for d, name in enumerate(('fft_transform', 'fft_transform_reverse')):
            out.append(Query('C06.h_transform_tables_readonly.nayuki.%s[N=%d]' % (name, N), 'FFTP.cpp', 'h_transform_tables_readonly', {'PN': N, 'PROC': 0, 'DIR': d},
                             libs=NAYUKI, unwind=4 * N + 8, backends=SAT, cap=900, fp_uf=True, cflags=inc))
    for low in ('scalar', 'avx2'):
        for x, name in enumerate(XF):
            out.append(Query('C06.%s.h_history_independent.spqlios.%s[N=16]' % (low, name), 'FFTP.cpp', 'h_history_independent', {'PN': 16, 'PROC': 1, 'XFORM': x},
                             libs=SPQLIOS, lowering=low, stubs={'fft': 'stub_fft', 'ifft': 'stub_ifft'}, unwind=140, backends=SAT, cap=900,
                             cflags=['-I' + FFTDIR + '/spqlios'], validate=(low == 'avx2' and x == 2)))
    YIELD = r'execute_reverse_int|execute_reverse_torus32|execute_direct_torus32|IntPolynomial_ifft|TorusPolynomial_ifft|TorusPolynomial_fft|^_ZTW'
    OPS = ('IntPolynomial_ifft', 'TorusPolynomial_ifft', 'TorusPolynomial_fft')
    # quick: pairs of entry points that use the same scratch buffer of a processor
    pairs = [(0, 1), (2, 2)] if tier == 'quick' else [(a, b) for a in range(3) for b in range(3)]
    def two(backend, a, b, lo, hi, last, **kw):
        d = {'THREADS': 1, 'OPA': a, 'OPB': b, 'SITE_LO': lo, 'SITE_HI': hi}
        if last:
            d['LAST_RANGE'] = 1
        d.update(kw.pop('defs', {}))
        tag = kw.pop('tag', '')
        if backend == 'spqlios':
            d.update(PN=16, PROC=1)
            return Query('C06.avx2.h_two_threads.spqlios.%s|%s[N=16,site=%s]%s' % (OPS[a], OPS[b], lo if hi == lo + 1 else '%d..' % lo, tag), 'FFTP.cpp', 'h_two_threads', d,
                         libs=SPQLIOS, lowering='avx2', libsubst={'fft_processor_spqlios.cpp': [(r'(fftp1024\s*\()\s*1024\s*(\)\s*;)', r'\g<1>16\g<2>')]}, stubs={'fft': 'stub_fft', 'ifft': 'stub_ifft'}, unwind=140,
                         backends=SAT2, cap=900, cflags=['-I' + FFTDIR + '/spqlios'], tls_slots=2, yield_in=YIELD, validate=False, **kw)
        d.update(PN=4, PROC=0)
        return Query('C06.h_two_threads.nayuki.%s|%s[N=4,site=%s]%s' % (OPS[a], OPS[b], lo if hi == lo + 1 else '%d..' % lo, tag), 'FFTP.cpp', 'h_two_threads', d,
                     libs=NAYUKI, lowering='scalar-ndebug', libsubst={'fft_processor_nayuki.cpp': [(r'(fp1024_nayuki\s*\()\s*1024\s*(\)\s*;)', r'\g<1>4\g<2>')]}, stubs=NSTUBS, unwind=24, backends=SAT2, cap=900, cflags=inc,
                     tls_slots=2, yield_in=YIELD, validate=False, **kw)

    for backend in ('spqlios', 'nayuki'):
        for a, b in pairs:
            if tier == 'quick' and backend == 'spqlios' and (a, b) == (2, 2):
                continue        # 21 queries of ~100 s: thorough tier (the nayuki pair and the spqlios ifft pair stay in quick)
            k = NSITES[backend][a]
            for lo in range(k):
                out.append(two(backend, a, b, lo, lo + 1, False))
            out.append(two(backend, a, b, k, 1 << 30, False))          # every later yield point, and "B after A"
    # thread life cycle: first FFT-using thread ends (thread_local destructors run), another thread evaluates, ends; leak check on
    for backend, a, b in (('spqlios', 0, 2), ('nayuki', 0, 2), ('nayuki', 2, 1)) + ((('spqlios', 2, 0), ('nayuki', 1, 0)) if tier == 'thorough' else ()):
        q = two(backend, a, b, 0, 1, False, tag='.exit', leak=True)
        q.entry = 'h_thread_exit'
        q.key = q.key.replace('h_two_threads', 'h_thread_exit').replace(',site=0]', ']')
        q.yield_in = None
        out.append(q)
    # the same life cycle with the REAL nayuki kernel (portable C model): the tables a thread uses must be alive (pointer checks + leak check)
    for a, b in ((0, 2), (2, 1)):
        q = two('nayuki', a, b, 0, 1, False, defs={'NOEQ': 1}, tag='.exit.realkernel', leak=True, fp_uf=True)
        q.entry = 'h_thread_exit'
        q.key = q.key.replace('h_two_threads', 'h_thread_exit').replace(',site=0]', ']')
        q.yield_in = None
        q.stubs = {}
        out.append(q)
    q = two('nayuki', 0, 2, 0, 1, False, defs={'CANARY': 1}, tag='.exit.canary', expect='fail', witness=False)
    q.entry = 'h_thread_exit'
    q.key = q.key.replace('h_two_threads', 'h_thread_exit').replace(',site=0]', ']')
    q.yield_in = None
    out.append(q)
    out.append(two('spqlios', 0, 1, 1, 2, False, defs={'CANARY': 1}, tag='.canary', expect='fail', witness=False))
    out.append(Query('C06.canary.h_history_independent.spqlios', 'FFTP.cpp', 'h_history_independent', {'PN': 16, 'PROC': 1, 'XFORM': 2, 'CANARY': 1}, libs=SPQLIOS,
                     stubs={'fft': 'stub_fft', 'ifft': 'stub_ifft'}, unwind=140, backends=SAT, cap=900, cflags=['-I' + FFTDIR + '/spqlios'], expect='fail', witness=False))
    out.append(Query('C06.canary.h_history_independent.nayuki', 'FFTP.cpp', 'h_history_independent', {'PN': 8, 'PROC': 0, 'XFORM': 0, 'CANARY': 1}, libs=NAYUKI,
                     stubs=NSTUBS, lowering='scalar-ndebug', unwind=40, backends=SAT, cap=900, cflags=inc, expect='fail', witness=False))
    out.append(Query('C06.canary.h_transform_tables_readonly', 'FFTP.cpp', 'h_transform_tables_readonly', {'PN': 4, 'PROC': 0, 'DIR': 0, 'CANARY': 1}, libs=NAYUKI,
                     unwind=24, backends=SAT, cap=900, fp_uf=True, cflags=inc, expect='fail', witness=False))
    return out
