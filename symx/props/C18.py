from ioshared import Q, OBJS, A3

TRUNC = [0, 2, 3, 4, 5, 6, 7, 8, 9, 10, 11, 12, 13]
# regions (text sections / maximal binary runs) of each export, in order; asserted by the harness against the real export
NREG = {'LweParams': 1, 'TGswParams': 2, 'LweSample': 1, 'LweKey': 2, 'TLweSample': 1, 'TLweKey': 2, 'TGswSample': 1, 'TGswKey': 3,
        'LweKeySwitchKey': 3, 'LweBootstrappingKey': 5, 'GateBootstrappingParameterSet': 4, 'CloudKeySet': 6, 'SecretKeySet': 6}
META = {
    'bounds': 'for 13 importers (every object kind): a complete export of a tiny object cut inside every region of the export in turn (a text section = one '
              'region, cut = section missing - A3; a maximal run of binary bytes = one region, cut at a SYMBOLIC byte offset inside it), both transports; the import must terminate the process or leave the '
              'C++ stream failed at every normal return, with CBMC bounds checks on throughout. 8 type-confusion pairs (text title and binary tag '
              'mismatches), both transports.',
    'outside': 'A3 (a cut inside a text section is modelled as "section missing"; guarded on every run by executing the same harness natively on the real parser with 300 seeded cut offsets per region); single-byte corruptions other than whole-section substitution; dimensions.',
    'assumptions': ['A1', 'A2', A3, 'a virtual call on the null TextModeProperties object terminates the process (it is a null-pointer call in the real code)'],
}


def queries(tier, seed):
    out = []
    for cxx in (1, 0):
        for o in TRUNC:
            if tier == 'quick' and cxx == 0 and OBJS[o] not in ('LweParams', 'LweSample', 'LweKey', 'LweKeySwitchKey', 'CloudKeySet'):
                continue
            for R in range(NREG[OBJS[o]]):
                out.append(Q('C18.h_truncated.%s.%s[region %d of %d]' % (OBJS[o], 'cxx' if cxx else 'cfile', R, NREG[OBJS[o]]), 'h_truncated',
                             {'OBJ': o, 'CXX': cxx, 'REGION': R, 'NREGIONS': NREG[OBJS[o]]},
                             witness=False, native_probe=True, native_sweep=300))
        for w in range(8):
            if tier == 'quick' and cxx == 0 and w not in (0, 2, 5):
                continue
            out.append(Q('C18.h_mistyped[%d].%s' % (w, 'cxx' if cxx else 'cfile'), 'h_mistyped', {'WRONG': w, 'CXX': cxx}, witness=False))
        out.append(Q('C18.h_mistyped_reach.%s' % ('cxx' if cxx else 'cfile'), 'h_mistyped_reach', {'CXX': cxx}))
    # reachability twins: with the truncation assumption widened to cut <= total the final check must be reachable and FAIL
    out.append(Q('C18.canary.h_truncated.LweKey', 'h_truncated', {'OBJ': 4, 'CXX': 1, 'CANARY': 1, 'NREGIONS': 2}, expect='fail', witness=False))
    out.append(Q('C18.canary.h_truncated.CloudKeySet', 'h_truncated', {'OBJ': 12, 'CXX': 0, 'CANARY': 1, 'NREGIONS': 6}, expect='fail', witness=False))
    out.append(Q('C18.canary.h_mistyped', 'h_mistyped', {'WRONG': 99, 'CXX': 1, 'CANARY': 1}, expect='fail', witness=False))
    return out
