from ioshared import Q, OBJS, A3, double_format

META = {
    'bounds': 'all 14 serialisable object kinds (12 types + cloud/secret composites) of tiny dimensions (n=2, N=2, k=1 and k=2, l=2, t=2, basebit=1) with '
              'symbolic contents: every coefficient a symbolic 32-bit word, noise levels from three per-query constant sets incl. the default sets\' '
              '2^-15, 2^-25, 7.18e-9, 2.44e-5 and the extremes 1e-12, 0.5, plus one scalar query over ALL doubles of [1e-12,0.5] through the number formatter; both transports; four objects back to back in one stream. Asserted: field-for-field '
              'equality (derived fields recomputed by the real constructors), variance of key material = common maximum, stream fully and cleanly '
              'consumed, re-export byte-identical.',
    'outside': 'A3 (text syntax, std::map ordering, line endings); dimensions; functional equivalence of a re-imported cloud key follows from field '
               'equality + determinism (C06/C15) and is not re-run.',
    'assumptions': ['A1', 'A2 exact ring back-end (FFT image rebuilt on import)', A3],
}


NOISES = [('2^-15,2^-25', {'NOISE_A': '3.0517578125e-05', 'NOISE_B': '2.98023223876953125e-08', 'NOISE_C': '0.012467'}),
          ('2.44e-5,7.18e-9', {'NOISE_A': '2.44e-5', 'NOISE_B': '7.18e-9', 'NOISE_C': '0.3'}),
          ('1e-12,0.5', {'NOISE_A': '1e-12', 'NOISE_B': '0.5', 'NOISE_C': '0.1'})]


def queries(tier, seed):
    out = []
    out.append(Q('C05.h_double_format', 'h_double_format', {'CXX': 1}, validate=True, finding_key='C05.double-format'))
    for cxx in (1, 0):
        for o, name in enumerate(OBJS):
            if tier == 'quick' and cxx == 0 and name not in ('LweParams', 'LweSample', 'LweKeySwitchKey', 'SecretKeySet'):
                continue
            for ni, (nname, nd) in enumerate(NOISES):
                if tier == 'quick' and ni != (o % 3) and not (name in ('GateBootstrappingParameterSet', 'LweParams') and cxx == 1):
                    continue
                d = {'OBJ': o, 'CXX': cxx}
                d.update(nd)
                out.append(Q('C05.h_roundtrip.%s.%s[%s]' % (name, 'cxx' if cxx else 'cfile', nname), 'h_roundtrip', d,
                             validate=(cxx == 1 and ni == o % 3 and name in ('LweParams', 'LweSample', 'TGswParams', 'LweKeySwitchKey', 'SecretKeySet')) or (cxx == 0 and name == 'LweParams'),
                             finding_key='C05.double-format' if name not in ('LweKey',) else None))
        out.append(Q('C05.h_concat.%s' % ('cxx' if cxx else 'cfile'), 'h_concat', dict({'CXX': cxx}, **NOISES[1][1]), validate=True, finding_key='C05.double-format'))
    # k=2 (two mask polynomials): per-polynomial loops of the key / sample sections
    for o, name in enumerate(OBJS):
        if name in ('TLweSample', 'TLweKey', 'TGswSample', 'TGswKey', 'LweBootstrappingKey', 'SecretKeySet') and (tier == 'thorough' or name in ('TLweKey', 'TGswKey', 'TLweSample', 'SecretKeySet')):
            d = {'OBJ': o, 'CXX': 1, 'PK': 2}
            d.update(NOISES[o % 3][1])
            out.append(Q('C05.h_roundtrip.%s.cxx[k=2]' % name, 'h_roundtrip', d, validate=(name == 'TLweKey'), finding_key='C05.double-format',
                         mdefs=dict(double_format()[1], IO_CAP=1024), unwind=1030))
    # rows with their own (symbolic) advisory variance: the stored value is the maximum over ALL rows and comes back on every row
    for name in ('LweKeySwitchKey', 'LweBootstrappingKey') + (('CloudKeySet',) if tier == 'thorough' else ()):
        d = {'OBJ': OBJS.index(name), 'CXX': 1, 'VARROWS': 1}
        d.update(NOISES[0][1])
        out.append(Q('C05.h_roundtrip.%s.cxx[row variances symbolic]' % name, 'h_roundtrip', d, finding_key='C05.double-format'))
    out.append(Q('C05.canary.h_roundtrip.LweSample', 'h_roundtrip', {'OBJ': 3, 'CXX': 1, 'CANARY': 1}, expect='fail', witness=False))
    out.append(Q('C05.canary.h_concat', 'h_concat', {'CXX': 1, 'CANARY': 1}, expect='fail', witness=False))
    out.append(Q('C05.canary.h_double_format', 'h_double_format', {'CXX': 1, 'CANARY': 1}, expect='fail', witness=False))
    return out
