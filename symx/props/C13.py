import random
from engine import Query

LIBS = ['numeric-functions.cpp']
META = {
    'bounds': 'phase/mu: all 2^32 values per query (one symbolic word); M is a per-query constant. quick: the property list '
              '{2,3,4,5,7,8,16,1000,1024,2048,4096,32768}, all powers of two 2..2^30, 2N for N in {2..2048}, 24 seeded M in '
              '[2,2^15]. thorough: in addition every M in [2,1024] and 500 seeded M in (1024,2^15].',
    'outside': 'M = 2^31 is not representable in the int32_t Msize parameter; non powers of two above 2^15; symbolic M '
               '(no back-end finishes beyond M<=16). The nearest-integer statement is the exact one '
               '(|M*phase - r*2^32| <= 2^31 on the circle, 128-bit oracle); ties are accepted either way as the property says.',
    'assumptions': ['A1: Torus32 arithmetic wraps modulo 2^32 (clang nsw flags ignored)',
                    'IEEE-754 double semantics of CBMC float encoding for dtot32/t32tod (round-to-nearest-even)',
                    'clang-14 -O1 lowering of numeric-functions.cpp preserves defined behaviour'],
}


def queries(tier, seed):
    rnd = random.Random(seed)
    Ms = [2, 3, 4, 5, 7, 8, 16, 1000, 1024, 2048, 4096, 32768]
    Ms += [1 << k for k in range(1, 31)]
    Ms += [2 * (1 << k) for k in range(1, 12)]
    Ms += [rnd.randrange(2, 1 << 15) for _ in range(24)]
    if tier == 'thorough':
        Ms += list(range(2, 1025))
        Ms += [rnd.randrange(1025, 1 << 15) for _ in range(500)]
    seen = set()
    out = []
    first = True
    for M in Ms:
        if M in seen:
            continue
        seen.add(M)
        pow2 = (M & (M - 1)) == 0
        be = ('minisat', 'cvc5int') if pow2 else ('cvc5int', 'kissat')
        for ent in ('h_modswitch_nearest', 'h_approx_consistent', 'h_encode_roundtrip'):
            out.append(Query('C13.%s[M=%d]' % (ent, M), 'C13.cpp', ent, {'MSIZE': M}, libs=LIBS, unwind=2,
                             backends=be, cap=300, validate=first or M in (7, 1024), witness=True))
        first = False
    # canaries (harness-side seeded bugs must be refuted through the same back-ends)
    for M in (7, 1024):
        for ent in ('h_modswitch_nearest', 'h_approx_consistent', 'h_encode_roundtrip'):
            out.append(Query('C13.canary.%s[M=%d]' % (ent, M), 'C13.cpp', ent, {'MSIZE': M, 'CANARY': 1}, libs=LIBS,
                             unwind=2, backends=('minisat', 'cvc5int', 'kissat'), cap=300, expect='fail',
                             canary_of='C13.%s[M=%d]' % (ent, M), witness=False))
    out.append(Query('C13.h_double_roundtrip', 'C13.cpp', 'h_double_roundtrip', {}, libs=LIBS, unwind=2,
                     backends=('minisat', 'kissat'), cap=300, validate=True))
    out.append(Query('C13.canary.h_double_roundtrip', 'C13.cpp', 'h_double_roundtrip', {'CANARY': 1}, libs=LIBS, unwind=2,
                     backends=('minisat', 'kissat'), cap=300, expect='fail', witness=False))
    K = 1 << 20 if tier == 'thorough' else 1024
    out.append(Query('C13.h_double_periodic[K=%d]' % K, 'C13.cpp', 'h_double_periodic', {'KMAX': K}, libs=LIBS, unwind=2,
                     backends=('minisat', 'kissat', 'cadical'), cap=600, validate=True))
    return out
