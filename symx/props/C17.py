from ioshared import Q, A3, double_format

META = {
    'bounds': 'one symbolic key set of tiny dimensions (all key-switching and bootstrapping rows, both secret keys and all noise levels symbolic); both '
              'transports. Asserted: the cloud export is a strict prefix of the secret export; 5 text sections and exactly the byte count given by the '
              'parameter formula, secret export = that + the two key sections; no fwrite source range of the cloud export intersects the LWE key '
              'storage; non-interference (both secrets replaced by other arbitrary values, identical cloud bytes); the cloud stream imports cleanly alone. '
              'h_export_api: the EXPORTed FILE*/std::stream functions, called in the sequence secret key set, cloud key set, parameter set, LWE key, cloud key set again, '
              'produce exactly the bytes of the generic-stream level each time (no state carried between exports) and the exported importers read them back. '
              'keygen.*: the key-generation queries of C08 (recording RNG stub): in a generated key-switching key the unused h = 0 column is the trivial '
              'zero sample and every other row is one noisy encryption with fresh full-range masks - no row is a noiseless equation in the secret key.',
    'outside': 'A3; "in any of the encodings the library uses": the library has one binary encoding per section, the check is on source address ranges '
               'and on non-interference rather than on substring search; dimensions.',
    'assumptions': ['A1', 'A2', A3],
}


def queries(tier, seed):
    out = []
    for cxx in (1, 0):
        out.append(Q('C17.h_cloud_public.%s' % ('cxx' if cxx else 'cfile'), 'h_cloud_public', {'CXX': cxx}, validate=(cxx == 1)))
    for cxx in (1, 0):
        out.append(Q('C17.h_export_api.%s' % ('cxx' if cxx else 'cfile'), 'h_export_api', {'CXX': cxx}, validate=True, mdefs=dict(double_format()[1], IO_CAP=1024), unwind=1030))
    # what is exported must itself be public: a *generated* key-switching key has the trivial zero sample in its unused h = 0 column and one
    # noisy encryption per other row (a noiseless row b = <a,s> would hand out the LWE key): the key-generation queries of C08
    import importlib
    for q in importlib.import_module('C08').queries('quick', seed):
        if 'h_ks_create' in q.key and q.expect == 'pass':
            q.key = 'C17.keygen.' + q.key
            q.validate = False
            out.append(q)
    out.append(Q('C17.canary.h_export_api', 'h_export_api', {'CXX': 0, 'CANARY': 1}, expect='fail', witness=False, mdefs=dict(double_format()[1], IO_CAP=1024), unwind=1030))
    out.append(Q('C17.canary.h_cloud_public', 'h_cloud_public', {'CXX': 1, 'CANARY': 1}, expect='fail', witness=False))
    return out
