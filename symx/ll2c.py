#!/usr/bin/env python3
"""ll2c -- LLVM-14 textual IR (typed pointers, clang -O1 output) -> C for CBMC.

The translation is purely syntactic: one C statement per IR instruction, SSA values become
locals, basic blocks become labels, phi nodes become parallel copies on the incoming edges.
Integer arithmetic is emitted on unsigned types (two's-complement wrap, nsw/nuw ignored:
assumption A1 of DESIGN.md). Aggregates keep their LLVM layout: named/literal structs become C
structs with fields f0,f1,..; every array type [N x T] is wrapped in `struct { T a[N]; }` so
that every C type is "name + stars".

Only the functions reachable from the requested roots are emitted. A call to a function that
is neither defined in the module, nor redirected by --stub, nor known to the built-in
environment table is a hard error (no silent nondet).
"""
import re, sys, struct, json, hashlib

# --------------------------------------------------------------------------- tokenizer
TOK = re.compile(r'''
   c"(?:[^"\\]|\\[0-9A-Fa-f]{2}|\\\\)*"
 | [%@]"(?:[^"\\]|\\.)*"
 | [%@$][-a-zA-Z$._0-9]+
 | !"(?:[^"\\]|\\.)*"
 | ![-a-zA-Z$._0-9]*
 | "(?:[^"\\]|\\.)*"
 | \.\.\.
 | -?\d+\.\d+(?:[eE][+-]?\d+)?
 | 0x[KLMHR]?[0-9A-Fa-f]+
 | -?\d+
 | [a-zA-Z_][a-zA-Z0-9_.]*
 | \#\d+
 | [=,()\[\]{}<>*:|]
 | ;.*
''', re.X)


def tokenize(line):
    out = []
    pos = 0
    n = len(line)
    while pos < n:
        c = line[pos]
        if c in ' \t\r\n':
            pos += 1
            continue
        m = TOK.match(line, pos)
        if not m:
            raise SyntaxError('cannot tokenize at %r in %r' % (line[pos:pos + 30], line[:200]))
        t = m.group(0)
        pos = m.end()
        if t[0] == ';':
            break
        out.append(t)
    return out


class Cur:
    def __init__(self, toks):
        self.t = toks
        self.i = 0

    def peek(self, k=0):
        j = self.i + k
        return self.t[j] if j < len(self.t) else None

    def next(self):
        t = self.t[self.i]
        self.i += 1
        return t

    def eat(self, s):
        if self.peek() == s:
            self.i += 1
            return True
        return False

    def expect(self, s):
        t = self.next()
        if t != s:
            raise SyntaxError('expected %r got %r in %s' % (s, t, ' '.join(self.t)[:300]))

    def done(self):
        return self.i >= len(self.t)


# --------------------------------------------------------------------------- types
VOID = ('void',)
DOUBLE = ('double',)
FLOAT = ('float',)
LABEL = ('label',)
META = ('metadata',)


def I(n):
    return ('int', n)


def P(t):
    return ('ptr', t)


def unq(name):
    # %"a b" -> a b ; %x -> x
    s = name[1:]
    if s.startswith('"'):
        s = s[1:-1]
    return s


def parse_type(c):
    t = c.next()
    if t == 'void':
        ty = VOID
    elif t[0] == 'i' and t[1:].isdigit():
        ty = I(int(t[1:]))
    elif t == 'double':
        ty = DOUBLE
    elif t == 'float':
        ty = FLOAT
    elif t == 'x86_fp80':
        ty = ('fp80',)
    elif t == 'half':
        ty = ('half',)
    elif t == 'label':
        ty = LABEL
    elif t == 'metadata':
        ty = META
    elif t == 'opaque':
        ty = ('opaque',)
    elif t[0] == '%':
        ty = ('named', unq(t))
    elif t == '[':
        n = int(c.next())
        c.expect('x')
        e = parse_type(c)
        c.expect(']')
        ty = ('array', n, e)
    elif t == '<':
        if c.peek() == '{':
            c.next()
            els = []
            if not c.eat('}'):
                while True:
                    els.append(parse_type(c))
                    if c.eat('}'):
                        break
                    c.expect(',')
            c.expect('>')
            ty = ('struct', tuple(els), True)
        else:
            n = int(c.next())
            c.expect('x')
            e = parse_type(c)
            c.expect('>')
            ty = ('vec', n, e)
    elif t == '{':
        els = []
        if not c.eat('}'):
            while True:
                els.append(parse_type(c))
                if c.eat('}'):
                    break
                c.expect(',')
        ty = ('struct', tuple(els), False)
    else:
        raise SyntaxError('type? %r in %s' % (t, ' '.join(c.t)[:300]))
    while True:
        if c.peek() == '*':
            c.next()
            ty = P(ty)
        elif c.peek() == '(':
            c.next()
            ps = []
            va = False
            if not c.eat(')'):
                while True:
                    if c.peek() == '...':
                        c.next()
                        va = True
                    else:
                        ps.append(parse_type(c))
                        skip_param_attrs(c)
                    if c.eat(')'):
                        break
                    c.expect(',')
            ty = ('func', ty, tuple(ps), va)
        elif c.peek() == 'addrspace':
            c.next(); c.expect('('); c.next(); c.expect(')')
        else:
            break
    return ty


PATTR = {'noundef', 'nonnull', 'nocapture', 'readonly', 'writeonly', 'readnone', 'noalias', 'zeroext', 'signext',
         'returned', 'immarg', 'nest', 'inreg', 'nofree', 'swiftself', 'swifterror', 'inalloca'}
PATTR_ARG = {'align', 'dereferenceable', 'dereferenceable_or_null'}
PATTR_TY = {'sret', 'byval', 'byref', 'preallocated', 'elementtype'}


def skip_param_attrs(c):
    """skip parameter attributes; returns dict with byval type if any"""
    info = {}
    while True:
        t = c.peek()
        if t in PATTR:
            c.next()
        elif t in PATTR_ARG:
            c.next()
            if c.eat('('):
                c.next(); c.expect(')')
            else:
                c.next()
        elif t in PATTR_TY:
            c.next()
            c.expect('(')
            ty = parse_type(c)
            c.expect(')')
            info[t] = ty
        else:
            break
    return info


# --------------------------------------------------------------------------- values
CASTOPS = {'bitcast', 'inttoptr', 'ptrtoint', 'trunc', 'zext', 'sext', 'fptosi', 'fptoui', 'sitofp', 'uitofp', 'fpext',
           'fptrunc', 'addrspacecast'}
BINOPS = {'add', 'sub', 'mul', 'udiv', 'sdiv', 'urem', 'srem', 'shl', 'lshr', 'ashr', 'and', 'or', 'xor', 'fadd',
          'fsub', 'fmul', 'fdiv', 'frem'}
FLAGS = {'nsw', 'nuw', 'exact', 'inbounds', 'fast', 'nnan', 'ninf', 'nsz', 'arcp', 'contract', 'afn', 'reassoc',
         'volatile', 'atomic', 'tail', 'musttail', 'notail', 'fastcc', 'ccc', 'coldcc'}


def parse_value(c, ty):
    """parse a value of (already parsed) type ty"""
    t = c.next()
    if t[0] == '!':
        if c.peek() == '(':  # !DIExpression(...)
            d = 0
            while True:
                x = c.next()
                if x == '(':
                    d += 1
                elif x == ')':
                    d -= 1
                    if d == 0:
                        break
        return ('meta', t)
    if t[0] == '%':
        return ('local', unq(t))
    if t[0] == '@':
        return ('global', unq(t))
    if t in ('true', 'false'):
        return ('int', 1 if t == 'true' else 0)
    if t == 'null':
        return ('null',)
    if t in ('undef', 'poison'):
        return ('undef',)
    if t == 'zeroinitializer':
        return ('zero',)
    if t == 'none':
        return ('null',)
    if re.match(r'^-?\d+$', t):
        return ('int', int(t))
    if re.match(r'^-?\d+\.\d+', t):
        return ('fp', float(t))
    if t.startswith('0x'):
        body = t[2:]
        if body[0] in 'KLMHR':
            return ('fpraw', t)
        bits = int(body, 16)
        return ('fp', struct.unpack('<d', struct.pack('<Q', bits))[0])
    if t.startswith('c"'):
        s = t[2:-1]
        b = bytearray()
        i = 0
        while i < len(s):
            if s[i] == '\\':
                if s[i + 1] == '\\':
                    b.append(92); i += 2
                else:
                    b.append(int(s[i + 1:i + 3], 16)); i += 3
            else:
                b.append(ord(s[i])); i += 1
        return ('str', bytes(b))
    if t == '[':
        els = []
        if not c.eat(']'):
            while True:
                ety = parse_type(c)
                els.append((ety, parse_value(c, ety)))
                if c.eat(']'):
                    break
                c.expect(',')
        return ('agg', els)
    if t == '{':
        els = []
        if not c.eat('}'):
            while True:
                ety = parse_type(c)
                els.append((ety, parse_value(c, ety)))
                if c.eat('}'):
                    break
                c.expect(',')
        return ('agg', els)
    if t == '<':
        if c.peek() == '{':
            c.next()
            els = []
            if not c.eat('}'):
                while True:
                    ety = parse_type(c)
                    els.append((ety, parse_value(c, ety)))
                    if c.eat('}'):
                        break
                    c.expect(',')
            c.expect('>')
            return ('agg', els)
        els = []
        while True:
            ety = parse_type(c)
            els.append((ety, parse_value(c, ety)))
            if c.eat('>'):
                break
            c.expect(',')
        return ('agg', els)
    if t == 'getelementptr':
        while c.peek() in ('inbounds',):
            c.next()
        c.expect('(')
        bty = parse_type(c)
        c.expect(',')
        pty = parse_type(c)
        pv = parse_value(c, pty)
        idx = []
        while c.eat(','):
            c.eat('inrange')
            ity = parse_type(c)
            idx.append((ity, parse_value(c, ity)))
        c.expect(')')
        return ('cgep', bty, pty, pv, idx)
    if t in CASTOPS:
        c.expect('(')
        sty = parse_type(c)
        sv = parse_value(c, sty)
        c.expect('to')
        dty = parse_type(c)
        c.expect(')')
        return ('ccast', t, sty, sv, dty)
    if t in BINOPS:
        while c.peek() in FLAGS:
            c.next()
        c.expect('(')
        aty = parse_type(c)
        a = parse_value(c, aty)
        c.expect(',')
        bty = parse_type(c)
        b = parse_value(c, bty)
        c.expect(')')
        return ('cbin', t, aty, a, b)
    if t == 'icmp':
        pred = c.next()
        c.expect('(')
        aty = parse_type(c)
        a = parse_value(c, aty)
        c.expect(',')
        bty = parse_type(c)
        b = parse_value(c, bty)
        c.expect(')')
        return ('cicmp', pred, aty, a, b)
    if t == 'select':
        c.expect('(')
        cty = parse_type(c); cv = parse_value(c, cty); c.expect(',')
        aty = parse_type(c); a = parse_value(c, aty); c.expect(',')
        bty = parse_type(c); b = parse_value(c, bty); c.expect(')')
        return ('cselect', cv, aty, a, b)
    if t == 'blockaddress' or t == 'dso_local_equivalent':
        raise NotImplementedError(t)
    raise SyntaxError('value? %r in %s' % (t, ' '.join(c.t)[:400]))


# --------------------------------------------------------------------------- module
class Func:
    def __init__(self):
        self.name = None
        self.ret = None
        self.params = []  # (ty, name, info)
        self.vararg = False
        self.blocks = []  # (label, [instr])
        self.defined = False
        self.src = ''


class Module:
    def __init__(self):
        self.types = {}  # name -> type
        self.globals = {}  # name -> dict(ty, init, const, tls, external)
        self.funcs = {}  # name -> Func
        self.aliases = {}  # name -> (ty, target value)
        self.ctors = []

    def resolve(self, ty):
        while ty[0] == 'named':
            ty = self.types[ty[1]]
        return ty


LINKAGE = {'private', 'internal', 'available_externally', 'linkonce', 'weak', 'common', 'appending', 'extern_weak',
           'linkonce_odr', 'weak_odr', 'external', 'dso_local', 'dso_preemptable', 'default', 'hidden', 'protected',
           'dllimport', 'dllexport', 'unnamed_addr', 'local_unnamed_addr', 'externally_initialized'}


def parse_module(text):
    m = Module()
    lines = text.split('\n')
    i = 0
    n = len(lines)
    while i < n:
        line = lines[i]
        i += 1
        s = line.strip()
        if not s or s[0] == ';':
            continue
        if s.startswith('source_filename') or s.startswith('target ') or s.startswith('attributes ') or s[0] == '!' \
                or s[0] == '$' or s.startswith('module asm'):
            continue
        if s[0] == '%':
            toks = tokenize(s)
            c = Cur(toks)
            name = unq(c.next())
            c.expect('=')
            c.expect('type')
            m.types[name] = parse_type(c)
            continue
        if s[0] == '@':
            toks = tokenize(s)
            c = Cur(toks)
            name = unq(c.next())
            c.expect('=')
            ext = False
            tls = False
            while c.peek() in LINKAGE or c.peek() == 'thread_local':
                t = c.next()
                if t in ('external', 'extern_weak', 'available_externally'):
                    ext = True
                if t == 'thread_local':
                    tls = True
                    if c.eat('('):
                        c.next(); c.expect(')')
            if c.peek() in ('alias', 'ifunc'):
                c.next()
                ty = parse_type(c)
                c.expect(',')
                ty2 = parse_type(c)
                v = parse_value(c, ty2)
                m.aliases[name] = (ty2, v)
                continue
            kind = c.next()
            assert kind in ('global', 'constant'), s[:200]
            ty = parse_type(c)
            init = None
            if not c.done() and c.peek() != ',':
                init = parse_value(c, ty)
            if name == 'llvm.global_ctors':
                if init and init[0] == 'agg':
                    for ety, ev in init[1]:
                        prio = ev[1][0][1][1]
                        fn = ev[1][1][1]
                        m.ctors.append((prio, fn))
                continue
            if name.startswith('llvm.'):
                continue
            m.globals[name] = dict(ty=ty, init=init, const=(kind == 'constant'), tls=tls, external=ext or init is None)
            continue
        if s.startswith('declare') or s.startswith('define'):
            isdef = s.startswith('define')
            toks = tokenize(s)
            c = Cur(toks)
            c.next()
            f = Func()
            f.defined = isdef
            while True:
                t = c.peek()
                if t in LINKAGE or t in FLAGS or t in PATTR or t in ('zeroext', 'signext', 'noalias', 'nonnull', 'noundef'):
                    c.next()
                elif t in PATTR_ARG:
                    c.next()
                    if c.eat('('):
                        c.next(); c.expect(')')
                    else:
                        c.next()
                else:
                    break
            f.ret = parse_ret_type(c)
            f.name = unq(c.next())
            c.expect('(')
            if not c.eat(')'):
                while True:
                    if c.peek() == '...':
                        c.next()
                        f.vararg = True
                    else:
                        pty = parse_type(c)
                        info = skip_param_attrs(c)
                        pname = None
                        if c.peek() and c.peek()[0] == '%':
                            pname = unq(c.next())
                        f.params.append((pty, pname, info))
                    if c.eat(')'):
                        break
                    c.expect(',')
            if isdef:
                # unnamed params are numbered
                k = 0
                ps = []
                for pty, pname, info in f.params:
                    if pname is None:
                        pname = str(k)
                    if pname.isdigit():
                        k = int(pname) + 1
                    ps.append((pty, pname, info))
                f.params = ps
                body = []
                while True:
                    l = lines[i]
                    i += 1
                    if l.startswith('}'):
                        break
                    body.append(l)
                f.src = s + '\n' + '\n'.join(body)
                parse_body(f, body, k)
            if isdef or f.name not in m.funcs:
                m.funcs[f.name] = f
            continue
        raise SyntaxError('top-level? ' + s[:200])
    return m


def parse_ret_type(c):
    return parse_type(c)


def parse_body(f, body, nextnum):
    cur_label = None
    cur = []
    blocks = []
    # the entry block is implicitly numbered `nextnum` when unnamed
    entry_label = str(nextnum)
    j = 0
    first = True
    while j < len(body):
        l = body[j]
        j += 1
        s = l.strip()
        if not s or s[0] == ';':
            continue
        mlab = re.match(r'^([-a-zA-Z$._0-9]+|"[^"]*"):', s)
        if mlab and not s.startswith('  '):
            if cur_label is not None or cur:
                blocks.append((cur_label if cur_label is not None else entry_label, cur))
            lab = mlab.group(1)
            if lab.startswith('"'):
                lab = lab[1:-1]
            cur_label = lab
            cur = []
            continue
        # multi-line switch / landingpad
        if ' switch ' in ' ' + s and s.rstrip().endswith('['):
            while not body[j].strip().startswith(']'):
                s += ' ' + body[j].strip()
                j += 1
            s += ' ]'
            j += 1
        if re.match(r'^(%\S+ = )?invoke ', s):
            while j < len(body) and ' unwind label ' not in s:
                s += ' ' + body[j].strip()
                j += 1
        if ' landingpad ' in s:
            while j < len(body) and re.match(r'^\s+(catch|filter|cleanup)\b', body[j]):
                s += ' ' + body[j].strip()
                j += 1
        cur.append(parse_instr(s))
    blocks.append((cur_label if cur_label is not None else entry_label, cur))
    f.blocks = blocks


def parse_call_args(c):
    args = []
    c.expect('(')
    if not c.eat(')'):
        while True:
            ty = parse_type(c)
            info = skip_param_attrs(c)
            v = parse_value(c, ty)
            args.append((ty, v, info))
            if c.eat(')'):
                break
            c.expect(',')
    return args


def parse_instr(s):
    toks = tokenize(s)
    c = Cur(toks)
    dst = None
    if c.peek(1) == '=':
        dst = unq(c.next())
        c.next()
    op = c.next()
    while op in ('tail', 'musttail', 'notail'):
        op = c.next()
    ins = {'op': op, 'dst': dst, 'text': s}
    if op in BINOPS:
        while c.peek() in FLAGS:
            c.next()
        ty = parse_type(c)
        a = parse_value(c, ty)
        c.expect(',')
        b = parse_value(c, ty)
        ins.update(ty=ty, a=a, b=b)
    elif op == 'fneg':
        while c.peek() in FLAGS:
            c.next()
        ty = parse_type(c)
        ins.update(ty=ty, a=parse_value(c, ty))
    elif op in CASTOPS:
        sty = parse_type(c)
        v = parse_value(c, sty)
        c.expect('to')
        dty = parse_type(c)
        ins.update(sty=sty, a=v, ty=dty)
    elif op == 'icmp' or op == 'fcmp':
        while c.peek() in FLAGS:
            c.next()
        pred = c.next()
        ty = parse_type(c)
        a = parse_value(c, ty)
        c.expect(',')
        b = parse_value(c, ty)
        ins.update(pred=pred, oty=ty, a=a, b=b, ty=I(1))
    elif op == 'select':
        while c.peek() in FLAGS:
            c.next()
        cty = parse_type(c); cv = parse_value(c, cty); c.expect(',')
        ty = parse_type(c); a = parse_value(c, ty); c.expect(',')
        ty2 = parse_type(c); b = parse_value(c, ty2)
        ins.update(c=cv, cty=cty, ty=ty, a=a, b=b)
    elif op == 'load':
        while c.peek() in ('volatile', 'atomic'):
            c.next()
        ty = parse_type(c)
        c.expect(',')
        pty = parse_type(c)
        p = parse_value(c, pty)
        ins.update(ty=ty, pty=pty, p=p)
    elif op == 'store':
        while c.peek() in ('volatile', 'atomic'):
            c.next()
        ty = parse_type(c)
        v = parse_value(c, ty)
        c.expect(',')
        pty = parse_type(c)
        p = parse_value(c, pty)
        ins.update(ty=ty, a=v, pty=pty, p=p)
    elif op == 'getelementptr':
        c.eat('inbounds')
        bty = parse_type(c)
        c.expect(',')
        pty = parse_type(c)
        p = parse_value(c, pty)
        idx = []
        while c.eat(','):
            if c.peek()[0] == '!':
                break
            ity = parse_type(c)
            idx.append((ity, parse_value(c, ity)))
        ins.update(bty=bty, pty=pty, p=p, idx=idx)
    elif op == 'alloca':
        c.eat('inalloca')
        ty = parse_type(c)
        cnt = None
        if c.eat(','):
            if c.peek() != 'align' and c.peek()[0] != '!':
                cty = parse_type(c)
                cnt = (cty, parse_value(c, cty))
        ins.update(aty=ty, cnt=cnt)
    elif op == 'br':
        if c.peek() == 'label':
            c.next()
            ins.update(targets=[unq(c.next())], cond=None)
        else:
            ty = parse_type(c)
            cv = parse_value(c, ty)
            c.expect(','); c.expect('label'); t1 = unq(c.next())
            c.expect(','); c.expect('label'); t2 = unq(c.next())
            ins.update(cond=cv, targets=[t1, t2])
    elif op == 'switch':
        ty = parse_type(c)
        v = parse_value(c, ty)
        c.expect(','); c.expect('label')
        d = unq(c.next())
        c.expect('[')
        cases = []
        while not c.eat(']'):
            cty = parse_type(c)
            cv = parse_value(c, cty)
            c.expect(','); c.expect('label')
            cases.append((cv, unq(c.next())))
        ins.update(ty=ty, a=v, default=d, cases=cases)
    elif op == 'ret':
        ty = parse_type(c)
        ins.update(ty=ty, a=None if ty == VOID else parse_value(c, ty))
    elif op == 'phi':
        while c.peek() in FLAGS:
            c.next()
        ty = parse_type(c)
        inc = []
        while True:
            c.expect('[')
            v = parse_value(c, ty)
            c.expect(',')
            lab = unq(c.next())
            c.expect(']')
            inc.append((v, lab))
            if not c.eat(','):
                break
        ins.update(ty=ty, inc=inc)
    elif op in ('call', 'invoke'):
        while c.peek() in FLAGS or c.peek() in PATTR or c.peek() in PATTR_ARG:
            t = c.next()
            if t in PATTR_ARG:
                if c.eat('('):
                    c.next(); c.expect(')')
                else:
                    c.next()
        rty = parse_type(c)
        fnty = None
        if rty[0] == 'func':
            fnty = rty
            rty = fnty[1]
        if c.peek() == 'asm':
            c.next()
            flags = []
            while c.peek() in ('sideeffect', 'alignstack', 'inteldialect', 'unwind'):
                flags.append(c.next())
            tmpl = c.next()
            c.expect(',')
            cons = c.next()
            args = parse_call_args(c)
            ins.update(op='asm', ty=rty, tmpl=eval_str(tmpl), cons=eval_str(cons), args=args, flags=flags)
        else:
            callee = parse_value(c, P(fnty) if fnty else None)
            args = parse_call_args(c)
            ins.update(ty=rty, fnty=fnty, callee=callee, args=args)
            if op == 'invoke':
                while c.peek() and c.peek() != 'to':
                    c.next()
                c.expect('to'); c.expect('label')
                ok = unq(c.next())
                c.expect('unwind'); c.expect('label')
                un = unq(c.next())
                ins.update(targets=[ok, un])
    elif op == 'extractvalue':
        ty = parse_type(c)
        a = parse_value(c, ty)
        idx = []
        while c.eat(','):
            if c.peek()[0] == '!':
                break
            idx.append(int(c.next()))
        ins.update(aty=ty, a=a, idx=idx)
    elif op == 'insertvalue':
        ty = parse_type(c)
        a = parse_value(c, ty)
        c.expect(',')
        ety = parse_type(c)
        e = parse_value(c, ety)
        idx = []
        while c.eat(','):
            if c.peek()[0] == '!':
                break
            idx.append(int(c.next()))
        ins.update(ty=ty, a=a, ety=ety, e=e, idx=idx)
    elif op == 'unreachable':
        pass
    elif op == 'landingpad':
        ins.update(ty=parse_type(c))
    elif op == 'resume':
        pass
    elif op == 'freeze':
        ty = parse_type(c)
        ins.update(ty=ty, a=parse_value(c, ty))
    elif op == 'fence':
        pass
    elif op == 'atomicrmw':
        c.eat('volatile')
        rop = c.next()
        pty = parse_type(c); p = parse_value(c, pty); c.expect(',')
        ty = parse_type(c); v = parse_value(c, ty)
        ins.update(rop=rop, pty=pty, p=p, ty=ty, a=v)
    elif op == 'cmpxchg':
        c.eat('weak'); c.eat('volatile')
        pty = parse_type(c); p = parse_value(c, pty); c.expect(',')
        ty = parse_type(c); cmp_ = parse_value(c, ty); c.expect(',')
        ty2 = parse_type(c); new = parse_value(c, ty2)
        ins.update(pty=pty, p=p, ty=ty, a=cmp_, b=new)
    elif op in ('extractelement', 'insertelement', 'shufflevector'):
        raise NotImplementedError('vector instruction (compile with vectorisation off): ' + s)
    else:
        raise NotImplementedError('instruction ' + op + ': ' + s)
    return ins


def eval_str(tok):
    s = tok[1:-1]
    out = []
    i = 0
    while i < len(s):
        if s[i] == '\\':
            if s[i + 1] == '\\':
                out.append('\\'); i += 2
            else:
                out.append(chr(int(s[i + 1:i + 3], 16))); i += 3
        else:
            out.append(s[i]); i += 1
    return ''.join(out)


# --------------------------------------------------------------------------- emitter
def cid(name):
    s = re.sub(r'[^A-Za-z0-9_]', '_', name)
    if s != name:
        s += '_' + hashlib.md5(name.encode()).hexdigest()[:6]
    return s


CKEYWORDS = {'auto', 'break', 'case', 'char', 'const', 'continue', 'default', 'do', 'double', 'else', 'enum', 'extern',
             'float', 'for', 'goto', 'if', 'int', 'long', 'register', 'return', 'short', 'signed', 'sizeof', 'static',
             'struct', 'switch', 'typedef', 'union', 'unsigned', 'void', 'volatile', 'while', 'inline', 'restrict',
             'main', 'log', 'sqrt', 'exp', 'y0', 'y1', 'j0', 'j1', 'index', 'time', 'signal', 'select'}

# environment table: functions with built-in meaning. value = C body template or special marker
ENV_NOOP_VOID = {
    '_ZNSt8ios_base4InitC1Ev', '_ZNSt8ios_base4InitD1Ev', '__cxa_guard_abort',
    '_ZNSt6localeD1Ev', '_ZNSt8ios_baseD2Ev', '_ZNSaIcEC2Ev', '_ZNSaIcED2Ev', '_ZNSaIcEC1Ev', '_ZNSaIcED1Ev',
}
ENV_RET0 = {'__cxa_atexit', '__cxa_thread_atexit'}
ENV_ABORT = {'abort', 'exit', '_ZSt9terminatev', '__cxa_pure_virtual', '_ZSt17__throw_bad_allocv',
             '_ZSt20__throw_length_errorPKc', '_ZSt28__throw_bad_array_new_lengthv', '__cxa_throw',
             '_ZSt16__throw_bad_castv', '_ZSt19__throw_logic_errorPKc', '_ZSt24__throw_out_of_range_fmtPKcz',
             '__cxa_call_unexpected', '_ZSt25__throw_bad_function_callv', '_Unwind_Resume', '__clang_call_terminate',
             '__cxa_bad_cast', '_ZSt24__throw_invalid_argumentPKc', '_ZSt20__throw_out_of_rangePKc',
             '__cxa_rethrow', '_ZSt20__throw_system_errori'}
ENV_NEW = {'_Znwm', '_Znam'}
ENV_DELETE = {'_ZdlPv', '_ZdaPv', '_ZdlPvm', '_ZdaPvm'}
ENV_LIBC = {'malloc', 'free', 'memcpy', 'memset', 'memmove', 'calloc', 'strlen', 'strcmp', 'memcmp', 'bcmp'}
# ostream inserters etc: return first argument
ENV_RETARG0 = re.compile(r'^(_ZStlsISt11char_traitsIcEERSt13basic_ostreamIcT_ES5_|_ZNSolsE|_ZNSo3putEc|_ZNSo5flushEv|'
                         r'_ZSt4endlIcSt11char_traitsIcEERSt13basic_ostreamIT_T0_ES6_|_ZNSo9_M_insertI|'
                         r'_ZSt16__ostream_insertIcSt11char_traitsIcEERSt13basic_ostreamIT_T0_ES6_PKS3_l|'
                         r'_ZSt5flushIcSt11char_traitsIcEERSt13basic_ostreamIT_T0_ES6_)')


class Emitter:
    tls_slots = 1
    yield_re = None

    def __init__(self, mod, roots, stubs=None, externs=None, noops=None):
        self.m = mod
        self.roots = roots
        self.stubs = stubs or {}  # name -> replacement name
        self.externs = set(externs or [])  # functions left as bodyless prototypes (nondet by CBMC), explicit
        self.noops = set(noops or [])
        self.structs = {}  # key type -> cname
        self.struct_defs = []  # (cname, type) in creation order
        self.fptypes = {}
        self.fptypedefs = []
        self.used_funcs = []
        self.used_globals = []
        self.seen_f = set()
        self.seen_g = set()
        self.out_funcs = []
        self.env_used = set()
        self.unknown = set()
        self.proto = {}
        self.nd_counter = 0
        self.nd_globals = {}
        self.asm_blocks = []
        self.asm_handler = None
        self.report = {'functions': [], 'env': [], 'stubs': dict(self.stubs), 'asm': 0}

    # ---- types
    def cty(self, ty):
        k = ty[0]
        if k == 'void':
            return 'void'
        if k == 'int':
            w = ty[1]
            if w == 1:
                return '_Bool'
            if w <= 8:
                return 'uint8_t'
            if w <= 16:
                return 'uint16_t'
            if w <= 32:
                return 'uint32_t'
            if w <= 64:
                return 'uint64_t'
            if w <= 128:
                return 'unsigned __int128'
            raise NotImplementedError('int width %d' % w)
        if k == 'double':
            return 'double'
        if k == 'float':
            return 'float'
        if k == 'fp80':
            return 'long double'
        if k == 'ptr':
            e = ty[1]
            if e[0] == 'func':
                return self.fpty(e)
            if e[0] == 'void':
                return 'void*'
            return self.cty(e) + '*'
        if k == 'named':
            name = ty[1]
            key = ('named', name)
            if key not in self.structs:
                cn = 'struct ' + cid(name)
                self.structs[key] = cn
                body = self.m.types.get(name, ('opaque',))
                self.struct_defs.append((cn, body))
                if body[0] == 'struct':
                    for e in body[1]:
                        self.cty(e)
                elif body[0] != 'opaque':
                    self.cty(body)
            return self.structs[key]
        if k == 'struct':
            if ty not in self.structs:
                cn = 'struct lit_' + hashlib.md5(repr(ty).encode()).hexdigest()[:8]
                self.structs[ty] = cn
                self.struct_defs.append((cn, ty))
                for e in ty[1]:
                    self.cty(e)
            return self.structs[ty]
        if k == 'array':
            if ty not in self.structs:
                ec = self.cty(ty[2])
                cn = 'struct arr%d_%s' % (ty[1], hashlib.md5(repr(ty).encode()).hexdigest()[:8])
                self.structs[ty] = cn
                self.struct_defs.append((cn, ty))
            return self.structs[ty]
        if k == 'func':
            return self.fpty(ty)  # function "value" type only through pointers
        if k == 'opaque':
            return 'void'
        raise NotImplementedError('type ' + repr(ty))

    def fpty(self, fty):
        if fty not in self.fptypes:
            name = 'fp_%s' % hashlib.md5(repr(fty).encode()).hexdigest()[:8]
            self.fptypes[fty] = name
            ret = self.cty(fty[1])
            ps = [self.cty(p) for p in fty[2]]
            if fty[3]:
                ps.append('...')
            if ps == ['...']:
                ps = ['']
            if not ps:
                ps = ['void']
            self.fptypedefs.append('typedef %s (*%s)(%s);' % (ret, name, ', '.join(ps)))
        return self.fptypes[fty]

    def width(self, ty):
        assert ty[0] == 'int', ty
        return ty[1]

    def tsize_align(self, ty):
        """(size, alignment) of an LLVM type on x86-64 (default data layout)"""
        k = ty[0]
        if k == 'int':
            w = ty[1]
            b = 1 if w <= 8 else 2 if w <= 16 else 4 if w <= 32 else 8 if w <= 64 else 16
            return b, b
        if k == 'double':
            return 8, 8
        if k == 'float':
            return 4, 4
        if k == 'fp80':
            return 16, 16
        if k == 'ptr':
            return 8, 8
        if k == 'named':
            body = self.m.types.get(ty[1], ('opaque',))
            if body[0] == 'opaque':
                return None, 1
            return self.tsize_align(body)
        if k == 'array':
            es, ea = self.tsize_align(ty[2])
            if es is None:
                return None, 1
            return es * ty[1], ea
        if k == 'struct':
            off = 0
            al = 1
            for e in ty[1]:
                es, ea = self.tsize_align(e)
                if es is None:
                    return None, 1
                if ty[2]:
                    ea = 1
                off = (off + ea - 1) // ea * ea
                off += es
                al = max(al, ea)
            off = (off + al - 1) // al * al
            return off, al
        return None, 1

    # ---- constants / values
    def gname(self, name):
        s = cid(name)
        if s in CKEYWORDS or s.startswith('__CPROVER') or s == '__dso_handle':
            s = 'g_' + s
        return s

    def lname(self, name):
        return 'v' + cid(name)

    def fpconst(self, v, ty):
        if v != v:
            return '(0.0/0.0)'
        if v == float('inf'):
            return '(1.0/0.0)'
        if v == float('-inf'):
            return '(-1.0/0.0)'
        s = float(v).hex()
        if ty == FLOAT:
            return '((float)%s)' % s
        return s

    def val(self, ty, v):
        """C expression for value v of type ty"""
        k = v[0]
        if k == 'local':
            return self.lname(v[1])
        if k == 'global':
            return self.gref(v[1], ty)
        if k == 'int':
            if ty[0] == 'ptr':
                assert v[1] == 0
                return '((%s)0)' % self.cty(ty)
            w = ty[1]
            x = v[1] & ((1 << w) - 1)
            if w == 1:
                return str(x)
            if w <= 32:
                return '((%s)%dU)' % (self.cty(ty), x)
            if w <= 64:
                return '((uint64_t)%dULL)' % x
            hi = x >> 64
            lo = x & ((1 << 64) - 1)
            return '((((unsigned __int128)%dULL)<<64)|%dULL)' % (hi, lo)
        if k == 'fp':
            return self.fpconst(v[1], ty)
        if k == 'null':
            return '((%s)0)' % self.cty(ty)
        if k in ('undef', 'zero'):
            rt = self.m.resolve(ty)
            if rt[0] in ('int',):
                return '((%s)0)' % self.cty(ty)
            if rt[0] in ('double', 'float'):
                return '0.0'
            if rt[0] == 'ptr':
                return '((%s)0)' % self.cty(ty)
            # aggregate: compound literal
            return '((%s){0})' % self.cty(ty)
        if k == 'cgep':
            return self.gep_expr(v[1], v[2], v[3], v[4])
        if k == 'ccast':
            return self.cast_expr(v[1], v[2], self.val(v[2], v[3]), v[4])
        if k == 'cbin':
            return self.bin_expr(v[1], v[2], self.val(v[2], v[3]), self.val(v[2], v[4]))
        if k == 'cicmp':
            return self.icmp_expr(v[1], v[2], self.val(v[2], v[3]), self.val(v[2], v[4]))
        if k == 'cselect':
            return '(%s ? %s : %s)' % (self.val(I(1), v[1]), self.val(v[2], v[3]), self.val(v[2], v[4]))
        if k in ('agg', 'str'):
            return '((%s)%s)' % (self.cty(ty), self.init(ty, v))
        raise NotImplementedError('value ' + repr(v)[:200])

    def gref(self, name, ty):
        """address of global `name` (a pointer value)"""
        if name in self.m.aliases:
            aty, target = self.m.aliases[name]
            return self.val(aty, target)
        if name in self.m.funcs or name in self.stubs:
            fn = self.use_func(name)
            return fn
        if name in self.m.globals:
            self.use_global(name)
            return '(&%s)' % self.gname(name)
        raise KeyError('unknown global @' + name)

    def init(self, ty, v):
        """C static initializer for value v of type ty"""
        rt = self.m.resolve(ty)
        k = v[0]
        if k in ('zero', 'undef'):
            if rt[0] in ('struct', 'array'):
                return '{0}'
            return self.val(ty, v)
        if k == 'str':
            return '{{' + ','.join(str(b) for b in v[1]) + '}}'
        if k == 'agg':
            if rt[0] == 'array':
                return '{{' + ','.join(self.init(ety, ev) for ety, ev in v[1]) + '}}'
            return '{' + ','.join(self.init(ety, ev) for ety, ev in v[1]) + '}'
        return self.val(ty, v)

    # ---- expressions
    def sx(self, e, w):
        """signed view of a w-bit unsigned value, as int64_t/int32_t/.. C expression"""
        if w == 1:
            return '(-(int32_t)(%s))' % e
        if w in (8, 16, 32, 64):
            return '((int%d_t)(%s))' % (w, e)
        if w == 128:
            return '((__int128)(%s))' % e
        if w < 64:
            return '((int64_t)((uint64_t)(%s) << %d) >> %d)' % (e, 64 - w, 64 - w)
        return '((__int128)((unsigned __int128)(%s) << %d) >> %d)' % (e, 128 - w, 128 - w)

    def mask(self, e, w):
        if w in (8, 16, 32, 64, 128):
            return '((%s)(%s))' % (self.cty(I(w)), e)
        if w == 1:
            return '((_Bool)((%s) & 1))' % e
        return '((%s)((%s) & %s))' % (self.cty(I(w)), e, self.val(I(w), ('int', (1 << w) - 1)))

    def wide(self, w):
        if w <= 32:
            return 'uint32_t'
        if w <= 64:
            return 'uint64_t'
        return 'unsigned __int128'

    def bin_expr(self, op, ty, a, b):
        if ty[0] in ('double', 'float'):
            o = {'fadd': 'SYMX_FADD', 'fsub': 'SYMX_FSUB', 'fmul': 'SYMX_FMUL', 'fdiv': 'SYMX_FDIV'}.get(op)
            if o is None:
                if op == 'frem':
                    return 'fmod(%s, %s)' % (a, b)
                raise NotImplementedError(op)
            if ty[0] == 'float':
                return '((float)%s((double)%s, (double)%s))' % (o, a, b) if False else '(%s %s %s)' % (a, {'fadd': '+', 'fsub': '-', 'fmul': '*', 'fdiv': '/'}[op], b)
            return '%s(%s, %s)' % (o, a, b)
        w = self.width(ty)
        W = self.wide(w)
        if op in ('add', 'sub', 'mul', 'and', 'or', 'xor'):
            o = {'add': '+', 'sub': '-', 'mul': '*', 'and': '&', 'or': '|', 'xor': '^'}[op]
            return self.mask('(%s)(%s) %s (%s)(%s)' % (W, a, o, W, b), w)
        if op == 'shl':
            return self.mask('(%s)(%s) << (%s)' % (W, a, b), w)
        if op == 'lshr':
            return self.mask('(%s)(%s) >> (%s)' % (W, a, b), w)
        if op == 'ashr':
            return self.mask('%s >> (%s)' % (self.sx(a, w), b), w)
        if op in ('udiv', 'urem'):
            o = '/' if op == 'udiv' else '%'
            return self.mask('(%s)(%s) %s (%s)(%s)' % (W, a, o, W, b), w)
        if op in ('sdiv', 'srem'):
            o = '/' if op == 'sdiv' else '%'
            return self.mask('%s %s %s' % (self.sx(a, w), o, self.sx(b, w)), w)
        raise NotImplementedError(op)

    def icmp_expr(self, pred, ty, a, b):
        rt = self.m.resolve(ty)
        if rt[0] == 'ptr':
            o = {'eq': '==', 'ne': '!=', 'ult': '<', 'ule': '<=', 'ugt': '>', 'uge': '>=',
                 'slt': '<', 'sle': '<=', 'sgt': '>', 'sge': '>='}[pred]
            if pred in ('eq', 'ne'):
                return '((void*)(%s) %s (void*)(%s))' % (a, o, b)
            return '((uint8_t*)(%s) %s (uint8_t*)(%s))' % (a, o, b)
        w = self.width(ty)
        if pred in ('eq', 'ne'):
            return '(%s %s %s)' % (a, '==' if pred == 'eq' else '!=', b)
        o = {'ult': '<', 'ule': '<=', 'ugt': '>', 'uge': '>=', 'slt': '<', 'sle': '<=', 'sgt': '>', 'sge': '>='}[pred]
        if pred[0] == 'u':
            W = self.wide(w)
            return '((%s)(%s) %s (%s)(%s))' % (W, a, o, W, b)
        return '(%s %s %s)' % (self.sx(a, w), o, self.sx(b, w))

    def fcmp_expr(self, pred, a, b):
        if pred == 'oeq': return '(%s == %s)' % (a, b)
        if pred == 'ogt': return '(%s > %s)' % (a, b)
        if pred == 'oge': return '(%s >= %s)' % (a, b)
        if pred == 'olt': return '(%s < %s)' % (a, b)
        if pred == 'ole': return '(%s <= %s)' % (a, b)
        if pred == 'one': return '(%s < %s || %s > %s)' % (a, b, a, b)
        if pred == 'ord': return '(%s == %s && %s == %s)' % (a, a, b, b)
        if pred == 'uno': return '(%s != %s || %s != %s)' % (a, a, b, b)
        if pred == 'ueq': return '(!(%s < %s || %s > %s))' % (a, b, a, b)
        if pred == 'ugt': return '(!(%s <= %s))' % (a, b)
        if pred == 'uge': return '(!(%s < %s))' % (a, b)
        if pred == 'ult': return '(!(%s >= %s))' % (a, b)
        if pred == 'ule': return '(!(%s > %s))' % (a, b)
        if pred == 'une': return '(%s != %s)' % (a, b)
        if pred == 'true': return '1'
        if pred == 'false': return '0'
        raise NotImplementedError(pred)

    def cast_expr(self, op, sty, a, dty):
        D = self.cty(dty)
        if op in ('bitcast', 'addrspacecast'):
            rs = self.m.resolve(sty)
            rd = self.m.resolve(dty)
            if rs[0] == 'ptr' and rd[0] == 'ptr':
                return '((%s)(%s))' % (D, a)
            if rs == rd:
                return a
            # scalar reinterpretation (double<->i64, float<->i32)
            return self.punned(sty, dty, a)
        if op == 'inttoptr':
            return '((%s)(uintptr_t)(%s))' % (D, a)
        if op == 'ptrtoint':
            return self.mask('(uintptr_t)(%s)' % a, self.width(dty))
        if op == 'trunc':
            return self.mask(a, self.width(dty))
        if op == 'zext':
            return '((%s)(%s))' % (D, a)
        if op == 'sext':
            return self.mask(self.sx(a, self.width(sty)), self.width(dty))
        if op == 'fptosi':
            w = self.width(dty)
            if w <= 32:
                return self.mask('(int32_t)(%s)' % a, w)
            return self.mask('(int64_t)(%s)' % a, w)
        if op == 'fptoui':
            w = self.width(dty)
            return self.mask('(%s)(%s)' % (self.wide(w), a), w)
        if op == 'sitofp':
            return '((%s)%s)' % (D, self.sx(a, self.width(sty)))
        if op == 'uitofp':
            return '((%s)(%s)(%s))' % (D, self.wide(self.width(sty)), a)
        if op in ('fpext', 'fptrunc'):
            return '((%s)(%s))' % (D, a)
        raise NotImplementedError(op)

    def punned(self, sty, dty, a):
        self.need_pun = True
        S = self.cty(sty)
        D = self.cty(dty)
        key = (S, D)
        if key not in self.puns:
            self.puns[key] = 'pun_%d' % len(self.puns)
        return '%s(%s)' % (self.puns[key], a)

    puns = {}
    need_pun = False

    def gep_expr(self, bty, pty, pv, idx):
        p = self.val(pty, pv)
        return self.gep_str(bty, p, [(ity, self.val(ity, iv), iv) for ity, iv in idx])

    def gep_str(self, bty, p, idx):
        """idx: list of (ity, cexpr, rawvalue)"""
        self.cty(bty)
        ity, ie, raw = idx[0]
        if raw[0] == 'int' and raw[1] == 0:
            e = '(*%s)' % p
        else:
            e = '%s[%s]' % (p, self.sx(ie, self.width(ity)))
        cur = bty
        for ity, ie, raw in idx[1:]:
            rt = self.m.resolve(cur)
            if rt[0] == 'struct':
                assert raw[0] == 'int', 'struct index must be constant'
                e += '.f%d' % raw[1]
                cur = rt[1][raw[1]]
            elif rt[0] == 'array':
                if raw[0] == 'int':
                    e += '.a[%d]' % raw[1]
                else:
                    e += '.a[%s]' % self.sx(ie, self.width(ity))
                cur = rt[2]
            else:
                raise NotImplementedError('gep into ' + repr(rt))
        return '(&%s)' % e

    # ---- functions / globals usage
    def use_global(self, name):
        if name not in self.seen_g:
            self.seen_g.add(name)
            self.used_globals.append(name)

    def use_func(self, name):
        """returns the C identifier to call/address; schedules the function for emission"""
        if name in self.stubs:
            name = self.stubs[name]
        if name in self.m.aliases:
            aty, target = self.m.aliases[name]
            if target[0] == 'global':
                return self.use_func(target[1])
            if target[0] == 'ccast' and target[3][0] == 'global':
                return self.use_func(target[3][1])
        if name not in self.seen_f:
            self.seen_f.add(name)
            self.used_funcs.append(name)
        return self.gname(name)

    def fsig(self, f, name=None):
        ps = []
        for pty, pname, info in f.params:
            ps.append(self.cty(pty) + ((' ' + self.lname(pname)) if pname is not None else ''))
        if f.vararg:
            ps.append('...')
        if not ps:
            ps = ['void']
        return '%s %s(%s)' % (self.cty(f.ret), self.gname(name or f.name), ', '.join(ps))

    # ---- main driver
    def run(self):
        for r in self.roots:
            self.use_func(r)
        bodies = []
        protos = []
        gi = 0
        fi = 0
        gdefs = []
        # process until fixed point (globals initializers can reference functions and vice versa)
        while fi < len(self.used_funcs) or gi < len(self.used_globals):
            while fi < len(self.used_funcs):
                name = self.used_funcs[fi]
                fi += 1
                f = self.m.funcs.get(name)
                if f is not None and f.defined and name not in self.externs and name not in self.noops:
                    protos.append(self.fsig(f) + ';')
                    bodies.append(self.emit_func(f))
                    self.report['functions'].append(name)
                else:
                    p, b = self.emit_env(name, f)
                    if p:
                        protos.append(p)
                    if b:
                        bodies.append(b)
            while gi < len(self.used_globals):
                name = self.used_globals[gi]
                gi += 1
                g = self.m.globals[name]
                T = self.cty(g['ty'])
                q = '__thread ' if g['tls'] else ''
                if name == 'symx_terminated':
                    continue
                if g['tls'] and Emitter.tls_slots > 1 and not g['external']:
                    # thread-local storage of an emulated thread system: one slot per logical thread, selected by symx_tid
                    gdefs.append(('#undef %s\n%s %s__tls[%d] = ' % (self.gname(name), T, self.gname(name), Emitter.tls_slots), g['ty'], g['init'], Emitter.tls_slots,
                                  '\n#define %s (%s__tls[symx_tid])' % (self.gname(name), self.gname(name))))
                elif g['external']:
                    gdefs.append('%s%s %s; /* external */' % (q, T, self.gname(name)))
                else:
                    gdefs.append(('%s%s %s = ' % (q, T, self.gname(name)), g['ty'], g['init']))
        # initializers may have pulled in more
        out = []
        out.append('/* generated by symx/ll2c.py -- do not edit */')
        out.append('#include <stdint.h>\n#include <stddef.h>\n#include <stdlib.h>\n#include <string.h>\n#include <math.h>')
        out.append('#include "symx_gen.h"')
        # initializers rendering may create new struct types; render first
        rendered = []
        for g in gdefs:
            if isinstance(g, tuple) and len(g) == 5:
                one = self.init(g[1], g[2])
                rendered.append(g[0] + '{' + ', '.join([one] * g[3]) + '};' + g[4])
            elif isinstance(g, tuple):
                rendered.append(g[0] + self.init(g[1], g[2]) + ';')
            else:
                rendered.append(g)
        if fi < len(self.used_funcs) or gi < len(self.used_globals):
            # new items discovered while rendering initializers: restart (rare) -- simple recursion
            return self.run_again()
        # struct forward decls and definitions in dependency order
        sdefs = self.order_struct_defs()
        for cn, body in self.struct_defs:
            out.append(cn + ';')
        out.extend(self.fptypedefs_sorted())
        out.extend(sdefs)
        for (S, D), fn in self.puns.items():
            out.append('static inline %s %s(%s x){ %s y; memcpy(&y,&x,sizeof y); return y; }' % (D, fn, S, D))
        out.extend(protos)
        for n, ct in sorted(self.nd_globals.items()):
            out.append('%s %s; /* last nondet value of this type: read by the trace parser */' % (ct, n))
        # globals: forward-declare all (initialisers may reference later globals, e.g. vtable -> typeinfo), then define
        tls_hdr = False
        for name in self.used_globals:
            g = self.m.globals[name]
            if name == 'symx_terminated':
                continue
            if g['tls'] and Emitter.tls_slots > 1 and not g['external']:
                if not tls_hdr:
                    out.append('extern uint32_t symx_tid; /* current logical thread */')
                    tls_hdr = True
                out.append('extern %s %s__tls[%d];\n#define %s (%s__tls[symx_tid])' % (self.cty(g['ty']), self.gname(name), Emitter.tls_slots, self.gname(name), self.gname(name)))
                continue
            out.append('extern %s%s %s;' % ('__thread ' if g['tls'] else '', self.cty(g['ty']), self.gname(name)))
        out.extend(rendered)
        out.extend(bodies)
        # ctor runner
        ct = ['void symx_run_ctors(void){']
        for prio, fn in sorted(self.m.ctors, key=lambda x: x[0]):
            if fn[0] == 'global' and fn[1] in self.seen_f:
                ct.append('  %s();' % self.gname(fn[1]))
        ct.append('}')
        out.append('\n'.join(ct))
        if self.unknown:
            raise RuntimeError('unknown external functions (no model, no stub): ' + ', '.join(sorted(self.unknown)))
        return '\n'.join(out) + '\n'

    def run_again(self):
        # restart with knowledge of everything used so far (order-insensitive)
        e = Emitter(self.m, list(self.used_funcs), self.stubs, self.externs, self.noops)
        e.asm_handler = self.asm_handler
        for g in self.used_globals:
            e.use_global(g)
        res = e.run()
        self.report = e.report
        return res

    def fptypedefs_sorted(self):
        return self.fptypedefs

    def order_struct_defs(self):
        defs = dict(self.struct_defs)
        done = set()
        out = []

        def deps(body):
            r = []
            if body[0] == 'struct':
                for e in body[1]:
                    r.extend(deps_t(e))
            elif body[0] == 'array':
                r.extend(deps_t(body[2]))
            return r

        def deps_t(t):
            if t[0] in ('named', 'struct', 'array'):
                return [self.cty(t)]
            return []

        def emit(cn):
            if cn in done:
                return
            done.add(cn)
            body = defs[cn]
            for d in deps(body):
                emit(d)
            if body[0] == 'opaque':
                return
            if body[0] == 'array':
                n = body[1]
                out.append('%s { %s a[%d]; };' % (cn, self.cty(body[2]), max(n, 1)))
            elif body[0] == 'struct':
                fs = ' '.join('%s f%d;' % (self.cty(e), i) for i, e in enumerate(body[1]))
                if not body[1]:
                    fs = 'char empty_;'
                out.append('%s { %s }%s;' % (cn, fs, ' __attribute__((packed))' if body[2] else ''))
            else:
                out.append('%s { %s f0; };' % (cn, self.cty(body)))

        i = 0
        while i < len(self.struct_defs):
            emit(self.struct_defs[i][0])
            i += 1
            defs = dict(self.struct_defs)
        return out

    # ---- environment functions
    def emit_env(self, name, f):
        cn = self.gname(name)
        if f is None:
            self.unknown.add(name)
            return None, None
        sig = self.fsig(f)
        # give parameter names
        ps = []
        for i, (pty, pname, info) in enumerate(f.params):
            ps.append('%s a%d' % (self.cty(pty), i))
        if f.vararg:
            ps.append('...')
        sigd = '%s %s(%s)' % (self.cty(f.ret), cn, ', '.join(ps) if ps else 'void')
        self.report['env'].append(name)
        if name in self.externs or name.startswith('nondet_') or name.startswith('symx_extern_'):
            return sig + ';', None
        if name.startswith('__CPROVER_uninterpreted_'):
            return sig.replace(cn + '(', name + '(', 1) + ';', None     # an uninterpreted function of the checker (Ackermann-expanded); defined in the native runtime
        if name.startswith('__CPROVER_') or name in ('symx_witness', 'symx_observe', 'symx_run_ctors'):
            return None, None
        if name in self.noops or name in ENV_NOOP_VOID:
            return sig + ';', sigd + '{ %s }' % ('' if f.ret == VOID else 'return 0;')
        if name in ENV_RET0:
            return sig + ';', sigd + '{ return 0; }'
        if name == '__cxa_guard_acquire':
            return sig + ';', sigd + '{ return *(uint8_t*)a0 == 0; }'
        if name == 'pthread_mutex_lock':
            # emulated thread system (a logical thread runs whole calls at yield points): a schedule in which a thread would have
            # to wait for a mutex held by another logical thread is infeasible, not a deadlock - cut it
            return sig + ';', sigd + '{ __CPROVER_assume(*(uint8_t*)a0 == 0); *(uint8_t*)a0 = 1; return 0; }'
        if name == 'pthread_mutex_unlock':
            return sig + ';', sigd + '{ *(uint8_t*)a0 = 0; return 0; }'
        if name == '_ZNSt7__cxx1112basic_stringIcSt11char_traitsIcESaIcEE9_M_createERmm':
            # std::string::_M_create(size_type& capacity, size_type old): heap buffer of capacity+1 chars
            return sig + ';', sigd + '{ void *p = malloc(*a1 + 1); __CPROVER_assume(p != 0); return (%s)p; }' % self.cty(f.ret)
        if name == '__cxa_guard_release':
            return sig + ';', sigd + '{ *(uint8_t*)a0 = 1; }'
        if name in ENV_ABORT:
            if name in ('abort', 'exit'):
                return None, None  # libc prototypes; calls are handled at call sites
            return sig + ';', sigd + '{ SYMX_ON_ABORT; }'  # address may be taken (vtable slots)
        if name in ENV_NEW or name in ENV_DELETE or name in ENV_LIBC:
            return None, None  # handled at call sites
        if name == '__assert_fail':
            return None, None
        if ENV_RETARG0.match(name):
            return sig + ';', sigd + '{ return a0; }'
        if name.startswith('llvm.'):
            return None, None
        if name in ('sqrt', 'log', 'cos', 'sin', 'pow', 'floor', 'ceil', 'rint', 'fabs', 'exp', 'nextafter', 'fmod',
                    'round', 'trunc', 'ldexp', 'frexp'):
            return None, None
        self.unknown.add(name)
        return None, None

    # ---- function bodies
    def emit_func(self, f):
        L = []
        decl = {}
        lines = []
        self.curf = f
        yield_here = bool(Emitter.yield_re and Emitter.yield_re.search(f.name))
        # typed allocations: CBMC gives a dynamic object the type T[n] only when the size expression carries sizeof(T);
        # an untyped malloc(n) becomes a byte array and every struct access a byte_extract cascade (orders of magnitude slower)
        self.alloc_ty = {}
        self.cast_src = {}   # local defined by a pointer bitcast -> (source pointer type, source value)
        self.ldef = {}       # local -> defining instruction (SSA)
        for lab, ins_list in f.blocks:
            for x in ins_list:
                if x.get('dst'):
                    self.ldef[x['dst']] = x
                if x['op'] == 'bitcast' and x['a'][0] == 'local' and x['ty'][0] == 'ptr' and x['a'][1] not in self.alloc_ty:
                    self.alloc_ty[x['a'][1]] = x['ty'][1]
                if x['op'] == 'bitcast' and x['ty'][0] == 'ptr' and x['sty'][0] == 'ptr' and x['dst'] is not None:
                    self.cast_src[x['dst']] = (x['sty'], x['a'])
        labels = {lab: 'L' + cid(lab) for lab, _ in f.blocks}
        # collect phis per block
        phis = {}
        defs_ty = {}
        for lab, ins_list in f.blocks:
            phis[lab] = [x for x in ins_list if x['op'] == 'phi']
        self.tmpn = 0

        order = self.rpo(f)
        idx = {lab: i for i, (lab, _) in enumerate(order)}
        heads = set()
        for lab, ins_list in order:
            t = ins_list[-1] if ins_list else None
            if t is None:
                continue
            tg = []
            if t['op'] == 'br':
                tg = t['targets']
            elif t['op'] == 'switch':
                tg = [t['default']] + [c[1] for c in t['cases']]
            elif t['op'] == 'invoke':
                tg = [t['targets'][0]]
            for x in tg:
                if x in idx and idx[x] <= idx[lab]:
                    heads.add(x)

        def target(frm, to):
            # forward entries into a loop head go through its pre-header label: CBMC resets a loop's unwind counter
            # only when the head is reached by a non-backward *fall-through* transition
            if to in heads and idx[frm] < idx[to]:
                return 'P' + labels[to]
            return labels[to]

        def edge(frm, to):
            ph = phis.get(to, [])
            if not ph:
                return 'goto %s;' % target(frm, to)
            vals = []
            for x in ph:
                v = None
                for iv, il in x['inc']:
                    if il == frm:
                        v = iv
                        break
                assert v is not None, (f.name, frm, to)
                vals.append((x, v))
            phinames = {x['dst'] for x in ph}
            need_tmp = any(v[0] == 'local' and v[1] in phinames for _, v in vals) and len(vals) > 1
            s = []
            if need_tmp:
                for k, (x, v) in enumerate(vals):
                    tn = 'pt%d_%s' % (k, cid(x['dst']))
                    decl[tn] = self.cty(x['ty'])
                    if v[0] != 'undef':
                        s.append('%s = %s;' % (tn, self.val(x['ty'], v)))
                for k, (x, v) in enumerate(vals):
                    tn = 'pt%d_%s' % (k, cid(x['dst']))
                    if v[0] != 'undef':
                        s.append('%s = %s;' % (self.lname(x['dst']), tn))
            else:
                for x, v in vals:
                    if v[0] != 'undef':
                        s.append('%s = %s;' % (self.lname(x['dst']), self.val(x['ty'], v)))
            s.append('goto %s;' % target(frm, to))
            return ' '.join(s)

        for lab, ins_list in order:
            if lab in heads:
                decl['symx_ph'] = 'int'
                lines.append('P%s: symx_ph = 0;' % labels[lab])
            lines.append('%s: ;' % labels[lab])
            for x in ins_list:
                op = x['op']
                d = x.get('dst')
                if op == 'phi':
                    decl[self.lname(d)] = self.cty(x['ty'])
                    continue
                if yield_here and (op == 'store' or (op in ('call', 'invoke', 'asm') and not str((x.get('callee') or ('', ''))[1]).startswith('llvm.'))):
                    lines.append('  symx_yield();')
                st = self.emit_instr(x, lab, edge, decl, f)
                if st:
                    lines.append('  ' + st)
        hdr = self.fsig(f) + ' {'
        ds = ['  %s %s;' % (t, n) for n, t in decl.items()]
        return '\n'.join([hdr] + ds + lines + ['}'])

    def rpo(self, f):
        """blocks in reverse post-order (every backward goto is then a loop back-edge, which is what CBMC's
        per-loop unwind counters assume); blocks unreachable from the entry (landing pads) are dropped"""
        bmap = dict(f.blocks)
        succ = {}
        for lab, ins_list in f.blocks:
            t = ins_list[-1] if ins_list else None
            ss = []
            if t is not None:
                if t['op'] == 'br':
                    ss = list(t['targets'])
                elif t['op'] == 'switch':
                    ss = [t['default']] + [c[1] for c in t['cases']]
                elif t['op'] == 'invoke':
                    ss = [t['targets'][0]]
            succ[lab] = ss
        entry = f.blocks[0][0]
        seen = set([entry])
        post = []
        stack = [(entry, iter(succ[entry]))]
        while stack:
            lab, it = stack[-1]
            adv = False
            for s2 in it:
                if s2 not in seen:
                    seen.add(s2)
                    stack.append((s2, iter(succ[s2])))
                    adv = True
                    break
            if not adv:
                post.append(lab)
                stack.pop()
        order = list(reversed(post))
        return [(lab, bmap[lab]) for lab in order]

    def setv(self, x, decl, expr, ty=None):
        ty = ty or x['ty']
        n = self.lname(x['dst'])
        decl[n] = self.cty(ty)
        return '%s = %s;' % (n, expr)

    def emit_instr(self, x, lab, edge, decl, f):
        op = x['op']
        if op == 'and':
            al = self.align_idiom(x)
            if al:
                return self.setv(x, decl, al)
        if op in BINOPS:
            return self.setv(x, decl, self.bin_expr(op, x['ty'], self.val(x['ty'], x['a']), self.val(x['ty'], x['b'])))
        if op == 'fneg':
            return self.setv(x, decl, '(-%s)' % self.val(x['ty'], x['a']))
        if op in CASTOPS:
            return self.setv(x, decl, self.cast_expr(op, x['sty'], self.val(x['sty'], x['a']), x['ty']))
        if op == 'icmp':
            return self.setv(x, decl, self.icmp_expr(x['pred'], x['oty'], self.val(x['oty'], x['a']), self.val(x['oty'], x['b'])))
        if op == 'fcmp':
            return self.setv(x, decl, self.fcmp_expr(x['pred'], self.val(x['oty'], x['a']), self.val(x['oty'], x['b'])))
        if op == 'select':
            return self.setv(x, decl, '(%s ? %s : %s)' % (self.val(I(1), x['c']), self.val(x['ty'], x['a']), self.val(x['ty'], x['b'])))
        if op == 'freeze':
            return self.setv(x, decl, self.val(x['ty'], x['a']))
        if op == 'load':
            return self.setv(x, decl, '*%s' % self.val(x['pty'], x['p']))
        if op == 'store':
            if x['a'][0] == 'undef':
                return ''
            return '*%s = %s;' % (self.val(x['pty'], x['p']), self.val(x['ty'], x['a']))
        if op == 'getelementptr':
            idx = [(ity, self.val(ity, iv), iv) for ity, iv in x['idx']]
            e = self.gep_str(x['bty'], self.val(x['pty'], x['p']), idx)
            rty = self.gep_result_type(x['bty'], x['idx'])
            return self.setv(x, decl, e, P(rty))
        if op == 'alloca':
            n = self.lname(x['dst'])
            T = self.cty(x['aty'])
            decl[n] = T + '*'
            if x['cnt'] is None or x['cnt'][1][0] == 'int':
                cnt = 1 if x['cnt'] is None else x['cnt'][1][1]
                decl['st_' + n + ('[%d]' % cnt)] = T
                return '%s = &st_%s[0];' % (n, n)
            return '%s = (%s*)__builtin_alloca(sizeof(%s) * (size_t)%s);' % (n, T, T, self.val(x['cnt'][0], x['cnt'][1]))
        if op == 'br':
            if x['cond'] is None:
                return edge(lab, x['targets'][0])
            return 'if (%s) { %s } else { %s }' % (self.val(I(1), x['cond']), edge(lab, x['targets'][0]), edge(lab, x['targets'][1]))
        if op == 'switch':
            s = 'switch (%s) {' % self.val(x['ty'], x['a'])
            for cv, tl in x['cases']:
                s += ' case %s: { %s }' % (self.val(x['ty'], cv), edge(lab, tl))
            s += ' default: { %s } }' % edge(lab, x['default'])
            return s
        if op == 'ret':
            if x['a'] is None:
                return 'return;'
            return 'return %s;' % self.val(x['ty'], x['a'])
        if op == 'unreachable':
            return '__CPROVER_assume(0);'
        if op == 'landingpad':
            if x['dst'] is not None:
                decl[self.lname(x['dst'])] = self.cty(x['ty'])
            return '__CPROVER_assume(0); /* landingpad: exceptions are not modelled */'
        if op == 'resume':
            return '__CPROVER_assume(0);'
        if op == 'fence':
            return ''
        if op == 'extractvalue':
            e = self.val(x['aty'], x['a'])
            cur = x['aty']
            for i in x['idx']:
                rt = self.m.resolve(cur)
                if rt[0] == 'struct':
                    e += '.f%d' % i
                    cur = rt[1][i]
                else:
                    e += '.a[%d]' % i
                    cur = rt[2]
            return self.setv(x, decl, e, cur)
        if op == 'insertvalue':
            n = self.lname(x['dst'])
            decl[n] = self.cty(x['ty'])
            s = ''
            if x['a'][0] != 'undef':
                s = '%s = %s; ' % (n, self.val(x['ty'], x['a']))
            e = n
            cur = x['ty']
            for i in x['idx']:
                rt = self.m.resolve(cur)
                if rt[0] == 'struct':
                    e += '.f%d' % i
                    cur = rt[1][i]
                else:
                    e += '.a[%d]' % i
                    cur = rt[2]
            return s + '%s = %s;' % (e, self.val(x['ety'], x['e']))
        if op == 'atomicrmw':
            p = self.val(x['pty'], x['p'])
            v = self.val(x['ty'], x['a'])
            n = self.lname(x['dst'])
            decl[n] = self.cty(x['ty'])
            o = {'add': '+', 'sub': '-', 'and': '&', 'or': '|', 'xor': '^'}.get(x['rop'])
            if x['rop'] == 'xchg':
                return '%s = *%s; *%s = %s;' % (n, p, p, v)
            if o is None:
                raise NotImplementedError('atomicrmw ' + x['rop'])
            return '%s = *%s; *%s = %s;' % (n, p, p, self.bin_expr(x['rop'], x['ty'], n, v))
        if op == 'cmpxchg':
            p = self.val(x['pty'], x['p'])
            n = self.lname(x['dst'])
            rty = ('struct', (x['ty'], I(1)), False)
            decl[n] = self.cty(rty)
            return '%s.f0 = *%s; %s.f1 = (%s.f0 == %s); if (%s.f1) *%s = %s;' % (
                n, p, n, n, self.val(x['ty'], x['a']), n, p, self.val(x['ty'], x['b']))
        if op == 'asm':
            if self.asm_handler is None:
                raise NotImplementedError('inline asm without handler in ' + f.name)
            self.report['asm'] += 1
            return self.asm_handler(self, x, decl, f)
        if op in ('call', 'invoke'):
            s = self.emit_call(x, decl, f)
            if op == 'invoke':
                s += ' ' + edge(lab, x['targets'][0])
            return s
        raise NotImplementedError(op)

    def gep_result_type(self, bty, idx):
        cur = bty
        for ity, iv in idx[1:]:
            rt = self.m.resolve(cur)
            if rt[0] == 'struct':
                cur = rt[1][iv[1]]
            elif rt[0] == 'array':
                cur = rt[2]
            else:
                raise NotImplementedError
        return cur

    def emit_call(self, x, decl, f):
        callee = x['callee']
        rty = x['ty']
        args = x['args']

        def arg(i):
            return self.val(args[i][0], args[i][1])

        def ret(e):
            if rty == VOID or x['dst'] is None:
                return '%s;' % e if e else ''
            return self.setv(x, decl, e)

        name = None
        if callee[0] == 'global':
            name = callee[1]
        elif callee[0] == 'ccast' and callee[3][0] == 'global':
            name = callee[3][1]
        if name is not None and name in self.stubs:
            name = self.stubs[name]
        if name is not None:
            if name.startswith('llvm.'):
                return self.emit_intrinsic(name, x, decl, arg, ret)
            if name == '__CPROVER_assume':
                return '__CPROVER_assume(%s);' % arg(0)
            if name == '__CPROVER_assert':
                return 'SYMX_ASSERT(%s, %s);' % (arg(0), self.cstring_literal(args[1][1]))
            if name == 'symx_witness':
                return 'SYMX_WITNESS_POINT;'
            if name == 'symx_observe':
                return 'SYMX_OBSERVE(%s);' % arg(0)
            if name == 'symx_run_ctors':
                for prio, fn in self.m.ctors:
                    if fn[0] == 'global':
                        self.use_func(fn[1])
                return 'symx_run_ctors();'
            if name == '__CPROVER_cover':
                return '__CPROVER_cover(%s);' % arg(0)
            if name.startswith('__CPROVER_uninterpreted_'):
                self.use_func(name)
            if name.startswith('__CPROVER_'):
                return ret('%s(%s)' % (name, ', '.join(arg(i) for i in range(len(args)))))
            if name.startswith('nondet_'):
                self.use_func(name)
                ct = self.cty(rty)
                n = 'symx_ndg_' + re.sub(r'[^a-z0-9]', '', ct)
                self.nd_globals[n] = ct
                return '%s = %s(); %s' % (n, self.gname(name), ret(n))
            fdef = self.m.funcs.get(name)
            isdef = fdef is not None and fdef.defined and name not in self.externs
            if name in ENV_ABORT:
                return 'SYMX_ON_ABORT;'
            if not isdef:
                if name in ENV_NEW:
                    self.use_func(name)
                    n = self.lname(x['dst'])
                    decl[n] = self.cty(rty)
                    return '%s = (%s)malloc(%s); __CPROVER_assume(%s != 0);' % (n, self.cty(rty), self.alloc_size(x, arg(0)), n)
                if name in ENV_DELETE:
                    self.use_func(name)
                    return 'free(%s);' % arg(0)
                if name in ENV_ABORT:
                    self.use_func(name)
                    return 'SYMX_ON_ABORT;'
                if name == '__assert_fail':
                    self.use_func(name)
                    return 'SYMX_LIB_ASSERT_FAIL;'
                if name in ENV_LIBC:
                    self.use_func(name)
                    if name == 'malloc':
                        n = self.lname(x['dst'])
                        decl[n] = self.cty(rty)
                        return '%s = (%s)malloc(%s); __CPROVER_assume(%s != 0);' % (n, self.cty(rty), self.alloc_size(x, arg(0)), n)
                    cargs = ', '.join(arg(i) for i in range(len(args)))
                    cname = 'memcmp' if name == 'bcmp' else name
                    if rty == VOID or x['dst'] is None:
                        return '%s(%s);' % (cname, cargs)
                    return self.setv(x, decl, '(%s)%s(%s)' % (self.cty(rty), cname, cargs))
                if name in ('sqrt', 'log', 'cos', 'sin', 'pow', 'floor', 'ceil', 'rint', 'fabs', 'exp', 'nextafter',
                            'fmod', 'round', 'trunc', 'ldexp'):
                    self.use_func(name)
                    return ret('%s(%s)' % (name, ', '.join(arg(i) for i in range(len(args)))))
            fn = self.use_func(name)
            # cast needed if called through a bitcast of different type
            cargs = []
            tf = self.m.funcs.get(self.resolve_alias(name))
            for i, (aty, av, info) in enumerate(args):
                e = self.val(aty, av)
                if 'byval' in info:
                    tn = 'bv%d_%s' % (i, cid(x['dst'] or str(id(x))))
                    decl[tn] = self.cty(info['byval'])
                    e = '(%s = *%s, &%s)' % (tn, e, tn)
                if tf is not None and i < len(tf.params) and tf.params[i][0] != aty:
                    e = '(%s)(%s)' % (self.cty(tf.params[i][0]), e)
                cargs.append(e)
            call = '%s(%s)' % (fn, ', '.join(cargs))
            if tf is not None and tf.ret != rty and rty != VOID:
                call = '(%s)%s' % (self.cty(rty), call)
            return ret(call)
        # indirect call
        fty = x['fnty'] or ('func', rty, tuple(a[0] for a in args), False)
        fp = self.val(P(fty), callee)
        cargs = ', '.join(arg(i) for i in range(len(args)))
        return ret('((%s)%s)(%s)' % (self.fpty(fty), fp, cargs))

    def align_idiom(self, x):
        """(ptrtoint(p) + A) & ~A  ->  the address of p advanced by the padding that aligns it: kept as pointer arithmetic on p
        (SYMX_ALIGN_PAD) so that the checker keeps the object identity and a constant offset"""
        a, b = x['a'], x['b']
        if a[0] == 'int':
            a, b = b, a
        if b[0] != 'int' or a[0] != 'local' or self.width(x['ty']) != 64:
            return None
        mask = b[1] & 0xFFFFFFFFFFFFFFFF
        A = (~mask) & 0xFFFFFFFFFFFFFFFF
        if A == 0 or A > 4095 or (A & (A + 1)) != 0:
            return None
        d = self.ldef.get(a[1])
        if not d or d['op'] != 'add':
            return None
        u, v = d['a'], d['b']
        if u[0] == 'int':
            u, v = v, u
        if v[0] != 'int' or v[1] != A or u[0] != 'local':
            return None
        pi = self.ldef.get(u[1])
        if not pi or pi['op'] != 'ptrtoint':
            return None
        pv = self.val(pi['sty'], pi['a'])
        return '((uint64_t)(uintptr_t)((uint8_t*)(%s) + SYMX_ALIGN_PAD(%s, %dUL)))' % (pv, pv, A)

    def alloc_size(self, x, size_expr):
        """size expression of an allocation, written as sizeof(T) * count when the result is used as a T*"""
        ety = self.alloc_ty.get(x['dst'])
        if ety is None or ety[0] in ('void', 'func') or ety == I(8):
            return size_expr
        es, ea = self.tsize_align(ety)
        if not es:
            return size_expr
        T = self.cty(ety)
        sv = x['args'][0][1]
        if sv[0] == 'int':
            if sv[1] % es != 0:
                return size_expr
            return 'sizeof(%s) * %dUL' % (T, sv[1] // es)
        # run-time size: a multiple of the element size by construction (n * sizeof(T) in the source)
        return 'sizeof(%s) * ((uint64_t)(%s) / %dUL)' % (T, size_expr, es)

    def resolve_alias(self, name):
        while name in self.m.aliases:
            aty, target = self.m.aliases[name]
            if target[0] == 'global':
                name = target[1]
            elif target[0] == 'ccast' and target[3][0] == 'global':
                name = target[3][1]
            else:
                break
        return name

    def cstring_literal(self, v):
        # v is a constant GEP into a private string global
        g = None
        if v[0] == 'cgep' and v[3][0] == 'global':
            g = v[3][1]
        elif v[0] == 'global':
            g = v[1]
        elif v[0] == 'ccast' and v[3][0] == 'global':
            g = v[3][1]
        if g is None or g not in self.m.globals:
            return '"assertion"'
        init = self.m.globals[g]['init']
        if init is None or init[0] != 'str':
            return '"assertion"'
        s = init[1].rstrip(b'\0').decode('latin1')
        s = s.replace('\\', '\\\\').replace('"', '\\"').replace('\n', ' ')
        return '"%s"' % s

    def emit_intrinsic(self, name, x, decl, arg, ret):
        base = name
        if re.match(r'llvm\.(lifetime|dbg|experimental\.noalias|invariant|prefetch|stackprotector)', name) or name in (
                'llvm.assume', 'llvm.donothing', 'llvm.var.annotation'):
            return ''
        if name.startswith('llvm.memset'):
            return 'memset(%s, %s, %s);' % (arg(0), arg(1), arg(2))
        if name.startswith('llvm.memcpy') or name.startswith('llvm.memmove'):
            # a whole-object copy between two T* (struct assignment in the source) stays a typed assignment: a byte-wise
            # memcpy makes every later field read a byte_extract that CBMC's constant propagation cannot see through
            a0, a1, a2 = x['args'][0][1], x['args'][1][1], x['args'][2][1]
            if a0[0] == 'local' and a1[0] == 'local' and a2[0] == 'int' and a0[1] in self.cast_src and a1[1] in self.cast_src:
                (t0, v0), (t1, v1) = self.cast_src[a0[1]], self.cast_src[a1[1]]
                for T in (t0, t1):
                    if self.m.resolve(T[1])[0] == 'struct' and self.tsize_align(T[1])[0] == a2[1]:
                        C = self.cty(T)
                        return '*(%s)%s = *(%s)%s;' % (C, self.val(t0, v0), C, self.val(t1, v1))
            fn = 'memcpy' if name.startswith('llvm.memcpy') else 'memmove'
            return '%s(%s, %s, %s);' % (fn, arg(0), arg(1), arg(2))
        if name.startswith('llvm.fmuladd') or name.startswith('llvm.fma.'):
            return ret('SYMX_FADD(SYMX_FMUL(%s, %s), %s)' % (arg(0), arg(1), arg(2)))
        if name.startswith('llvm.fabs'):
            return ret('fabs(%s)' % arg(0))
        if name.startswith('llvm.sqrt'):
            return ret('sqrt(%s)' % arg(0))
        for fn in ('floor', 'ceil', 'rint', 'round', 'trunc', 'cos', 'sin', 'log', 'exp', 'pow', 'nearbyint'):
            if name.startswith('llvm.%s.' % fn):
                return ret('%s(%s)' % (fn, ', '.join(arg(i) for i in range(len(x['args'])))))
        m = re.match(r'llvm\.(smax|smin|umax|umin)\.i(\d+)', name)
        if m:
            w = int(m.group(2))
            ty = I(w)
            a, b = arg(0), arg(1)
            pred = {'smax': 'sgt', 'smin': 'slt', 'umax': 'ugt', 'umin': 'ult'}[m.group(1)]
            return ret('(%s ? %s : %s)' % (self.icmp_expr(pred, ty, a, b), a, b))
        m = re.match(r'llvm\.(u|s)(add|sub)\.sat\.i(\d+)', name)
        if m and m.group(1) == 'u':
            w = int(m.group(3))
            a, b = arg(0), arg(1)
            W = self.wide(w)
            if m.group(2) == 'sub':
                return ret('((%s)(%s) > (%s)(%s) ? %s : %s)' % (W, a, W, b, self.mask('(%s)(%s) - (%s)(%s)' % (W, a, W, b), w), self.val(I(w), ('int', 0))))
            s_ = self.mask('(%s)(%s) + (%s)(%s)' % (W, a, W, b), w)
            return ret('((%s)%s < (%s)(%s) ? %s : %s)' % (W, s_, W, a, self.val(I(w), ('int', (1 << w) - 1)), s_))
        m = re.match(r'llvm\.abs\.i(\d+)', name)
        if m:
            w = int(m.group(1))
            a = arg(0)
            return ret('(%s < 0 ? %s : %s)' % (self.sx(a, w), self.mask('-(%s)(%s)' % (self.wide(w), a), w), a))
        m = re.match(r'llvm\.(u|s)(add|sub|mul)\.with\.overflow\.i(\d+)', name)
        if m:
            w = int(m.group(3))
            if w > 64:
                raise NotImplementedError(name)
            ty = I(w)
            rty = x['ty']
            n = self.lname(x['dst'])
            decl[n] = self.cty(rty)
            a, b = arg(0), arg(1)
            o = {'add': '+', 'sub': '-', 'mul': '*'}[m.group(2)]
            if m.group(1) == 'u':
                wide = '(unsigned __int128)(%s) %s (unsigned __int128)(%s)' % (a, o, b)
                res = self.mask(wide, w)
                ov = '((%s) != (unsigned __int128)%s)' % (wide, res)
                if m.group(2) == 'sub':
                    ov = '((%s) < (%s))' % (a, b)
            else:
                wide = '(__int128)%s %s (__int128)%s' % (self.sx(a, w), o, self.sx(b, w))
                res = self.mask('(unsigned __int128)(%s)' % wide, w)
                ov = '((%s) != (__int128)%s)' % (wide, self.sx(res, w))
            return '%s.f0 = %s; %s.f1 = %s;' % (n, res, n, ov)
        m = re.match(r'llvm\.(ctlz|cttz|ctpop|bswap)\.i(\d+)', name)
        if m:
            w = int(m.group(2))
            a = arg(0)
            k = m.group(1)
            if k == 'ctpop':
                return ret(self.mask('__builtin_popcountll((uint64_t)%s)' % a, w))
            if k == 'ctlz':
                return ret('(%s == 0 ? %d : %s)' % (a, w, self.mask('__builtin_clzll((uint64_t)%s) - %d' % (a, 64 - w), w)))
            if k == 'cttz':
                return ret('(%s == 0 ? %d : %s)' % (a, w, self.mask('__builtin_ctzll((uint64_t)%s)' % a, w)))
            if k == 'bswap':
                return ret('__builtin_bswap%d(%s)' % (w, a))
        m = re.match(r'llvm\.(fshl|fshr)\.i(\d+)', name)
        if m and int(m.group(2)) in (8, 16, 32, 64):
            w = int(m.group(2))
            a, b, c = arg(0), arg(1), arg(2)
            ut = 'uint%d_t' % w
            sh = '((%s)(%s) %% %d)' % (ut, c, w)
            if m.group(1) == 'fshl':
                return ret('(%s == 0 ? (%s)(%s) : (%s)(((%s)(%s) << %s) | ((%s)(%s) >> (%d - %s))))' % (sh, ut, a, ut, ut, a, sh, ut, b, w, sh))
            return ret('(%s == 0 ? (%s)(%s) : (%s)(((%s)(%s) << (%d - %s)) | ((%s)(%s) >> %s)))' % (sh, ut, b, ut, ut, a, w, sh, ut, b, sh))
        if name.startswith('llvm.trap') or name.startswith('llvm.debugtrap'):
            return 'SYMX_ON_ABORT;'
        if name.startswith('llvm.expect'):
            return ret(arg(0))
        if name.startswith('llvm.stacksave'):
            return ret('((uint8_t*)0)')
        if name.startswith('llvm.stackrestore'):
            return ''
        if name.startswith('llvm.threadlocal.address'):
            return ret(arg(0))
        if name.startswith('llvm.is.constant'):
            return ret('0')
        if name.startswith('llvm.objectsize'):
            return ret('((uint64_t)-1)')
        raise NotImplementedError('intrinsic ' + name)


def translate(ll_text, roots, stubs=None, externs=None, noops=None, asm_handler=None, tls_slots=1, yield_in=None):
    mod = parse_module(ll_text)
    Emitter.puns = {}
    Emitter.tls_slots = tls_slots
    Emitter.yield_re = re.compile(yield_in) if yield_in else None
    e = Emitter(mod, roots, stubs, externs, noops)
    e.asm_handler = asm_handler
    c = e.run()
    return c, e.report, mod


def main():
    import argparse
    ap = argparse.ArgumentParser()
    ap.add_argument('ll')
    ap.add_argument('-o', '--out', required=True)
    ap.add_argument('--root', action='append', default=[])
    ap.add_argument('--stub', action='append', default=[], help='orig=replacement')
    ap.add_argument('--extern', action='append', default=[])
    ap.add_argument('--noop', action='append', default=[])
    ap.add_argument('--asm', action='store_true')
    a = ap.parse_args()
    stubs = dict(s.split('=', 1) for s in a.stub)
    handler = None
    if a.asm:
        import asm2c
        handler = asm2c.handler
    c, rep, _ = translate(open(a.ll).read(), a.root, stubs, a.extern, a.noop, handler)
    open(a.out, 'w').write(c)
    json.dump(rep, sys.stderr)
    sys.stderr.write('\n')


if __name__ == '__main__':
    main()
