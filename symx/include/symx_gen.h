/* prelude of every ll2c-generated C file */
#pragma once
#include <stdint.h>
#include <string.h>
union symx_vec { uint32_t d[8]; uint64_t q[4]; double pd[4]; uint8_t b[32]; };
#ifdef __CPROVER__
#  ifdef SYMX_WITNESS
     /* reachability twin: every property assertion is dropped, the witness point must FAIL */
#    define SYMX_ASSERT(c, m) ((void)0)
#    define SYMX_WITNESS_POINT __CPROVER_assert(0, "SYMX-WITNESS reached")
#    define SYMX_LIB_ASSERT_FAIL __CPROVER_assume(0)
#  else
#    define SYMX_ASSERT(c, m) __CPROVER_assert((c), m)
#    define SYMX_WITNESS_POINT ((void)0)
#    define SYMX_LIB_ASSERT_FAIL do { __CPROVER_assert(0, "library assert() failed"); __CPROVER_assume(0); } while (0)
#  endif
#  define SYMX_OBSERVE(x) ((void)0)
#  if defined(SYMX_ABORT_FAILS) && !defined(SYMX_WITNESS)
#    define SYMX_ON_ABORT do { symx_terminated = 1; __CPROVER_assert(0, "SYMX-ABORT library terminated the process"); __CPROVER_assume(0); } while (0)
#  else
#    define SYMX_ON_ABORT do { symx_terminated = 1; __CPROVER_assume(0); } while (0)
#  endif
uint32_t symx_terminated = 0;
#else
#  include "symx_native.h"
#  ifdef __cplusplus
extern "C" {
#  endif
void symx_observe(uint64_t);
void symx_native_terminate(void);
extern uint32_t symx_terminated;
#  ifdef __cplusplus
}
#  endif
#  define SYMX_ASSERT(c, m) symx_native_assert((c) ? 1 : 0, m)
#  define SYMX_WITNESS_POINT ((void)0)
#  define SYMX_OBSERVE(x) symx_observe((uint64_t)(x))
#  define SYMX_ON_ABORT symx_native_terminate()
#  define SYMX_LIB_ASSERT_FAIL symx_native_terminate()
#endif
