/* prelude of every ll2c-generated C file */
#pragma once
#include <stdint.h>
#include <string.h>
union symx_vec { uint32_t d[8]; uint64_t q[4]; double pd[4]; uint8_t b[32]; };
/* padding that aligns p to A+1 bytes. Under the checker object bases are aligned (its address model puts the offset in the
   low bits), so the padding is a function of the offset alone and folds to a constant; natively it is the real padding. */
#ifdef __CPROVER__
#  define SYMX_ALIGN_PAD(p, A) ((uint64_t)((A) + 1 - (((uint64_t)__CPROVER_POINTER_OFFSET(p)) & (A))) & (A))
#else
#  define SYMX_ALIGN_PAD(p, A) ((uint64_t)(0 - (uint64_t)(uintptr_t)(p)) & (A))
#endif
#if defined(__CPROVER__) && defined(SYMX_FP_UF)
/* floating-point operations as uninterpreted functions (commutativity of + and * kept by operand normalisation):
   used where a property is about which expression / which cells are computed, not about rounding */
double __CPROVER_uninterpreted_fadd(double, double);
double __CPROVER_uninterpreted_fsub(double, double);
double __CPROVER_uninterpreted_fmul(double, double);
double __CPROVER_uninterpreted_fdiv(double, double);
/* results are arbitrary but never NaN (x == x must hold for a value that is stored and compared later) */
static inline int symx_uf_le(double a, double b) { return (a < b) || (a == b && (__CPROVER_signd(a) || !__CPROVER_signd(b))); }
static inline double symx_uf_fadd(double a, double b) { double r = symx_uf_le(a, b) ? __CPROVER_uninterpreted_fadd(a, b) : __CPROVER_uninterpreted_fadd(b, a); __CPROVER_assume(r == r); return r; }
static inline double symx_uf_fmul(double a, double b) { double r = symx_uf_le(a, b) ? __CPROVER_uninterpreted_fmul(a, b) : __CPROVER_uninterpreted_fmul(b, a); __CPROVER_assume(r == r); return r; }
static inline double symx_uf_fsub(double a, double b) { double r = __CPROVER_uninterpreted_fsub(a, b); __CPROVER_assume(r == r); return r; }
static inline double symx_uf_fdiv(double a, double b) { double r = __CPROVER_uninterpreted_fdiv(a, b); __CPROVER_assume(r == r); return r; }
#  define SYMX_FADD(a, b) symx_uf_fadd((a), (b))
#  define SYMX_FMUL(a, b) symx_uf_fmul((a), (b))
#  define SYMX_FSUB(a, b) symx_uf_fsub((a), (b))
#  define SYMX_FDIV(a, b) symx_uf_fdiv((a), (b))
#else
#  define SYMX_FADD(a, b) ((a) + (b))
#  define SYMX_FSUB(a, b) ((a) - (b))
#  define SYMX_FMUL(a, b) ((a) * (b))
#  define SYMX_FDIV(a, b) ((a) / (b))
#endif
#ifdef __CPROVER__
#  ifdef SYMX_WITNESS
     /* reachability twin: every property assertion is dropped, the witness point must FAIL */
#    define SYMX_ASSERT(c, m) ((void)0)
#    define SYMX_WITNESS_POINT __CPROVER_assert(0, "SYMX-WITNESS reached")
#    define SYMX_LIB_ASSERT_FAIL __CPROVER_assume(0)
#  else
#    define SYMX_ASSERT(c, m) __CPROVER_assert((c), m)
#    define SYMX_WITNESS_POINT ((void)0)
#    define SYMX_LIB_ASSERT_FAIL do { __CPROVER_assert(0, "library assert() failed"); __CPROVER_assume(0); } while (0)
#  endif
#  define SYMX_OBSERVE(x) ((void)0)
#  if defined(SYMX_ABORT_FAILS) && !defined(SYMX_WITNESS)
#    define SYMX_ON_ABORT do { symx_terminated = 1; __CPROVER_assert(0, "SYMX-ABORT library terminated the process"); __CPROVER_assume(0); } while (0)
#  else
#    define SYMX_ON_ABORT do { symx_terminated = 1; __CPROVER_assume(0); } while (0)
#  endif
uint32_t symx_terminated = 0;
#else
#  include "symx_native.h"
#  ifdef __cplusplus
extern "C" {
#  endif
void symx_observe(uint64_t);
void symx_native_terminate(void);
extern uint32_t symx_terminated;
#  ifdef __cplusplus
}
#  endif
#  define SYMX_ASSERT(c, m) symx_native_assert((c) ? 1 : 0, m)
#  define SYMX_WITNESS_POINT ((void)0)
#  define SYMX_OBSERVE(x) symx_observe((uint64_t)(x))
#  define SYMX_ON_ABORT symx_native_terminate()
#  define SYMX_LIB_ASSERT_FAIL symx_native_terminate()
#endif
