/* symx.h -- harness-side API. Harnesses are C++ translation units written against the repo's
 * own headers; they are lowered by the same clang -> ll2c route as the library code (CBMC run)
 * and compiled natively by g++ against the real sources (replay / translator validation). */
#pragma once
#include <stdint.h>
#include <stddef.h>
extern "C" {
int32_t nondet_i32(void);
uint32_t nondet_u32(void);
int64_t nondet_i64(void);
uint64_t nondet_u64(void);
uint8_t nondet_u8(void);
uint16_t nondet_u16(void);
double nondet_f64(void);
void __CPROVER_assume(bool);
void __CPROVER_assert(bool, const char *);
void symx_witness(void);       /* reachability witness point (end of every harness)            */
void symx_run_ctors(void);     /* runs the module's static constructors (llvm.global_ctors)    */
extern uint32_t symx_terminated;
}
#define ASSUME(c) __CPROVER_assume(c)
#define CHECK(c, msg) __CPROVER_assert((c), msg)
#define HARNESS(name) extern "C" void name(void)
/* STUB(orig) defines a harness-side replacement for library function `orig`.
 * CBMC route: the function is emitted as stub_<orig> and ll2c redirects every call of orig to it.
 * native route: it is emitted under the original name and the library object has orig weakened. */
/* natively every stub would override its library function in every query of the harness file: a stub is compiled in
   only when the query lists it (the engine passes -DUSE_<replacement name>); wrap each stub definition in
   #if STUB_ON(<replacement name>) ... #endif */
#ifdef SYMX_NATIVE
#define STUB_ON(repl) defined(USE_##repl)
#else
#define STUB_ON(repl) 1
#endif
#ifdef SYMX_NATIVE
#define STUBNAME(orig) orig
#else
#define STUBNAME(orig) stub_##orig
#endif
#ifndef CANARY
#define CANARY 0
#endif
static inline uint32_t u32(int32_t x) { return (uint32_t) x; }
static inline int32_t i32(uint32_t x) { return (int32_t) x; }
/* stub for a C++-mangled library function: under CBMC it is the C function `cname` (ll2c redirects calls of `mangled`
   to it); natively it is emitted under the mangled symbol so that it overrides the weakened library definition */
#ifdef SYMX_NATIVE
#define STUB_CXX(ret, cname, mangled, args) extern "C" ret cname args __asm__(mangled); extern "C" ret cname args
#else
#define STUB_CXX(ret, cname, mangled, args) extern "C" ret cname args
#endif
