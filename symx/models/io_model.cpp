#include <stdlib.h>
#include <string.h>
#include <string>
#include <new>
#include "symx.h"
#include "io_model.h"
extern "C" bool __CPROVER_same_object(const void *, const void *);
extern "C" size_t __CPROVER_POINTER_OFFSET(const void *);

#ifndef IO_CAP
#define IO_CAP 512
#endif
#ifndef IO_MAXREC
#define IO_MAXREC 12
#endif
#define IO_MAXPROP 6
#define IO_NAMELEN 16

/* how tfhe_generic_streams.cpp prints a double: the format string is read from /repo on every run by the property driver and
   handed over as IO_DOUBLE_DECIMALS (fixed "%.Df") or IO_DOUBLE_EXACT (>=17 significant digits / hex float: exact round trip) */
#if !defined(IO_DOUBLE_DECIMALS) && !defined(IO_DOUBLE_EXACT)
#error "the double format of setProperty_double must be supplied by the driver"
#endif

#ifndef SYMX_NATIVE
/* =============================================================== model side (CBMC) */
/* names and titles are views of the string literals the library passes in (static lifetime): nothing is copied */
struct PropEntry { const char *name; int kind; double d; int64_t i; };
struct Record { const char *title; int n; PropEntry e[IO_MAXPROP]; };

static double roundtrip_fmt(double x) {
#ifdef IO_DOUBLE_EXACT
    return x;
#else
    /* "%.Df" then strtold: the decimal expansion rounded to D places, read back as the nearest double */
    double scale = 1.0;
    for (int k = 0; k < IO_DOUBLE_DECIMALS; k++) scale *= 10.0;
    double y = x * scale;
    double r = (double) (int64_t) (y + (y >= 0 ? 0.5 : -0.5));
    return r / scale;
#endif
}

/* std::string as the library code sees it under this model: {pointer, length, 16 bytes} (libstdc++ layout); the seven
   std::string entry points tfhe_io.cpp uses (constructor from a literal, destructor, ==, !=, size, data) are replaced by the
   stub_string_* functions below, which keep a *view* of the literal instead of copying it */
/* accessed as two scalars at offsets 0 and 8 (not through a look-alike struct: a type-punned struct access makes CBMC route the
   pointer through byte_extract, after which no character comparison is constant any more and every dimension read back from a
   text section becomes a symbolic allocation size) */
static inline const char *&str_p(const void *s) { return *(const char **) s; }
static inline size_t &str_len(const void *s) { return *((size_t *) s + 1); }
static inline const char *chars(const std::string &s) { return str_p(&s); }
/* bounded comparison of two names / titles (all shorter than IO_NAMELEN): CBMC's strcmp model unwinds to the global bound on every call */
static bool streq(const char *a, const char *b) {
    for (int k = 0; k < IO_NAMELEN; k++) {
        if (a[k] != b[k]) return false;
        if (!a[k]) return true;
    }
    return true;
}
extern "C" {
void stub_string_ctor(void *self, const char *s, const void *alloc) { str_p(self) = s; size_t n = 0; while (s[n]) n++; str_len(self) = n; }
void stub_string_dtor(void *self) {}
bool stub_string_eq(const void *a, const void *b) {
    if (str_len(a) != str_len(b)) return false;
    const char *x = str_p(a), *y = str_p(b);
    for (size_t i = 0; i < str_len(a); i++) if (x[i] != y[i]) return false;
    return true;
}
bool stub_string_ne(const void *a, const void *b) { return !stub_string_eq(a, b); }
size_t stub_string_size(const void *a) { return str_len(a); }
const char *stub_string_data(const void *a) { return str_p(a); }
}
struct TitleStore { const char *p; size_t len; size_t pad[2]; };

class ModelProps : public TextModeProperties {
public:
    TitleStore title;
    Record r;
    bool null_object;
    ModelProps() : null_object(false) { r.n = 0; r.title = ""; title.p = r.title; title.len = 0; }
    void retitle() { title.p = r.title; size_t n = 0; while (r.title[n]) n++; title.len = n; }
    virtual const std::string &getTypeTitle() const { if (null_object) abort(); return *(const std::string *) &title; }
    virtual void setTypeTitle(const std::string &t) {
        r.title = chars(t);
        retitle();
    }
    int find(const std::string &name) const {
        const char *s = chars(name);
        for (int i = 0; i < r.n; i++) if (streq(s, r.e[i].name)) return i;
        return -1;
    }
    int slot(const std::string &name) {
        int i = find(name);
        if (i >= 0) return i;
        if (r.n >= IO_MAXPROP) abort();
        r.e[r.n].name = chars(name);
        return r.n++;
    }
    virtual const std::string &getProperty(const std::string &name) const { abort(); return *(const std::string *) &title; }
    virtual double getProperty_double(const std::string &name) const {
        if (null_object) abort();
        int i = find(name);
        if (i < 0) abort();                  /* std::map::at throws out_of_range -> terminate */
        return r.e[i].kind == 1 ? r.e[i].d : (double) r.e[i].i;
    }
    virtual int64_t getProperty_int64_t(const std::string &name) const {
        if (null_object) abort();
        int i = find(name);
        if (i < 0) abort();
        return r.e[i].kind == 2 ? r.e[i].i : (int64_t) r.e[i].d;
    }
    virtual void setProperty(const std::string &name, const std::string &value) { abort(); }
    virtual void setProperty_double(const std::string &name, double value) { int i = slot(name); r.e[i].kind = 1; r.e[i].d = roundtrip_fmt(value); r.e[i].i = 0; }
    virtual void setProperty_int64_t(const std::string &name, int64_t value) { int i = slot(name); r.e[i].kind = 2; r.e[i].i = value; r.e[i].d = 0; }
    virtual ~ModelProps() {}
};

struct IoBuf {
    uint8_t data[IO_CAP];
    size_t len;
    int nrec;
    size_t rec_off[IO_MAXREC];
    Record rec[IO_MAXREC];
    size_t binbytes;
    /* reader state */
    size_t pos, limit;      /* limit: exact cut (may be symbolic) */
    size_t cut_lo;          /* concrete lower bound of the cut: everything below is available for sure */
    bool cxx, failed;
    const uint8_t *watch_q; size_t watch_m; bool watch_hit;
    class MemOstream *w; class MemIstream *r;
};

/* the buffer behind any Ostream / Istream subclass of this model: the pointer field right after the vptr */
static inline IoBuf *buf_of(const void *obj) { return *(IoBuf *const *) ((const char *) obj + sizeof(void *)); }

class MemOstream : public Ostream {
public:
    IoBuf *b;
    MemOstream(IoBuf *b) : b(b) {}
    virtual void fputs(const std::string &s) const { abort(); }           /* only reached through the modelled text layer */
    virtual void fwrite(const void *data, size_t bytes) const {
        if (b->len + bytes > IO_CAP) abort();
        memcpy(b->data + b->len, data, bytes);
        b->len += bytes;
        b->binbytes += bytes;
        if (b->watch_q && __CPROVER_same_object(data, b->watch_q)) {
            /* overlap of [data, data+bytes) with the watched range, by offsets inside the one object both point into */
            size_t po = __CPROVER_POINTER_OFFSET(data), qo = __CPROVER_POINTER_OFFSET(b->watch_q);
            if (po < qo + b->watch_m && qo < po + bytes) b->watch_hit = true;
        }
    }
    virtual ~MemOstream() {}
};
class MemIstream : public Istream {
public:
    IoBuf *b;
    MemIstream(IoBuf *b) : b(b) {}
    virtual void getLine(std::string &reps) const { abort(); }
    virtual void fread(void *data, size_t bytes) const {
        if (b->failed) return;                                            /* a failed std::istream ignores further reads */
        if (b->pos + bytes <= b->cut_lo) {                                /* entirely before the (possibly symbolic) cut: concrete */
            memcpy(data, b->data + b->pos, bytes);
            b->pos += bytes;
            return;
        }
        size_t avail = b->limit > b->pos ? b->limit - b->pos : 0;
        /* a read that would run into a text record is a short read too */
        if (avail < bytes) {
            if (!b->cxx) abort();                                         /* CIstream::fread: short read -> abort() */
            /* istream::read stores the `avail` characters it got and sets failbit|eofbit. The destination is left as it was
               (for a fresh local that is an arbitrary value under CBMC): the property is about the return state, and a
               symbolic-length copy costs a timeout on every long binary section */
            b->pos = b->limit;
            b->failed = true;
            return;
        }
        memcpy(data, b->data + b->pos, bytes);
        b->pos += bytes;
    }
    virtual bool feof() const { return b->failed || b->pos >= b->limit; }
    virtual ~MemIstream() {}
};

IoBuf *io_new() {
    IoBuf *b = (IoBuf *) malloc(sizeof(IoBuf));
    b->len = 0; b->nrec = 0; b->binbytes = 0; b->pos = 0; b->limit = 0; b->cxx = true; b->failed = false;
    b->watch_q = 0; b->watch_m = 0; b->watch_hit = false;
    b->w = new MemOstream(b); b->r = new MemIstream(b);
    return b;
}
void io_delete(IoBuf *b) {}
const Ostream &io_writer(IoBuf *b) { return *b->w; }
const Istream &io_reader(IoBuf *b, size_t limit, bool cxx) { b->pos = 0; b->limit = limit < b->len ? limit : b->len; b->cut_lo = b->limit; b->cxx = cxx; b->failed = false; return *b->r; }
/* region table computed from rec_off[] (concrete values) */
static int region_bounds(IoBuf *b, int R, size_t *lo, size_t *hi, bool *text) {
    int n = 0;
    size_t at = 0;
    for (int k = 0; k <= b->nrec; k++) {
        size_t next = k < b->nrec ? b->rec_off[k] : b->len;
        if (next > at) { if (n == R) { *lo = at; *hi = next; *text = false; } n++; }          /* binary run before record k / at the end */
        if (k < b->nrec) { if (n == R) { *lo = next; *hi = next + IO_REC_BYTES; *text = true; } n++; at = next + IO_REC_BYTES; }
    }
    return n;
}
int io_regions(IoBuf *b) { size_t lo = 0, hi = 0; bool t = false; return region_bounds(b, -1, &lo, &hi, &t); }
bool io_region_is_text(IoBuf *b, int R) { size_t lo = 0, hi = 0; bool t = false; region_bounds(b, R, &lo, &hi, &t); return t; }
const Istream &io_reader_region(IoBuf *b, int R, size_t d, bool cxx) {
    size_t lo = 0, hi = 0; bool t = false;
    region_bounds(b, R, &lo, &hi, &t);
    b->pos = 0; b->cxx = cxx; b->failed = false;
    b->cut_lo = lo;
    if (t) b->limit = lo;                                /* a text section cut anywhere is a missing section (A3) */
    else { size_t len = hi - lo; b->limit = lo + (d % len); }
    return *b->r;
}
bool io_failed(IoBuf *b) { return b->failed; }
size_t io_size(IoBuf *b) { return b->len; }
size_t io_consumed(IoBuf *b) { return b->pos; }
size_t io_binary_bytes(IoBuf *b) { return b->binbytes; }
int io_records(IoBuf *b) { return b->nrec; }
void io_watch(IoBuf *b, const void *q, size_t m) { b->watch_q = (const uint8_t *) q; b->watch_m = m; b->watch_hit = false; }
bool io_watch_hit(IoBuf *b) { return b->watch_hit; }
static bool rec_equal(const Record *x, const Record *y) {
    if (!streq(x->title, y->title) || x->n != y->n) return false;
    for (int i = 0; i < x->n; i++) {
        if (!streq(x->e[i].name, y->e[i].name) || x->e[i].kind != y->e[i].kind) return false;
        if (x->e[i].kind == 1 ? !(x->e[i].d == y->e[i].d) : x->e[i].i != y->e[i].i) return false;
    }
    return true;
}
bool io_is_prefix(IoBuf *a, IoBuf *b) {
    if (a->len > b->len || a->nrec > b->nrec) return false;
    for (size_t i = 0; i < a->len; i++) if (a->data[i] != b->data[i]) return false;
    for (int r = 0; r < a->nrec; r++) if (a->rec_off[r] != b->rec_off[r] || !rec_equal(&a->rec[r], &b->rec[r])) return false;
    return true;
}
bool io_equal(IoBuf *a, IoBuf *b) { return a->len == b->len && a->nrec == b->nrec && io_is_prefix(a, b); }

/* ---- the text layer of tfhe_generic_streams.cpp, as atomic records */
TextModeProperties *new_TextModeProperties_blank() { return new ModelProps(); }
void delete_TextModeProperties(TextModeProperties *ptr) { delete ptr; }
void print_TextModeProperties_toOStream(const Ostream &F, const TextModeProperties *properties) {
    const ModelProps *p = (const ModelProps *) properties;
    IoBuf *b = buf_of(&F);
    if (b->nrec >= IO_MAXREC || b->len + IO_REC_BYTES > IO_CAP) abort();
    b->rec_off[b->nrec] = b->len;
    b->rec[b->nrec] = p->r;
    for (int k = 0; k < IO_REC_BYTES; k++) b->data[b->len + k] = (uint8_t) (0xA0 + (b->nrec & 15));   /* placeholder bytes of the text section */
    b->len += IO_REC_BYTES;
    b->nrec++;
}
TextModeProperties *new_TextModeProperties_fromIstream(const Istream &F) {
    IoBuf *b = buf_of(&F);
    ModelProps *res = new ModelProps();
    /* the parser skips everything up to the next "-----BEGIN" line: binary bytes before a record are ignored lines */
    int r = -1;
    if (!b->failed)
        for (int k = 0; k < b->nrec; k++) if (r < 0 && b->rec_off[k] >= b->pos) r = k;
    if (r < 0 || b->rec_off[r] + IO_REC_BYTES > b->cut_lo) {
        /* no complete text section before the end of input: the real function returns NULL and every caller
           dereferences it at once (a virtual call through a null object: the process dies) */
        b->pos = b->limit;
        if (b->cxx) b->failed = true;
        res->null_object = true;
        return res;
    }
    res->r = b->rec[r];
    res->retitle();
    b->pos = b->rec_off[r] + IO_REC_BYTES;
    return res;
}
/* the four transport classes of tfhe_generic_streams.h over the same buffer: a FILE* / std::ostream& / std::istream& handed to the
   EXPORTed API is an IoBuf in disguise (io_file / io_ostream / io_istream below) */
static void buf_write(IoBuf *b, const void *data, size_t bytes) { MemOstream o(b); o.fwrite(data, bytes); }
static void buf_read(IoBuf *b, void *data, size_t bytes, bool cxx) { b->cxx = cxx; MemIstream i(b); i.fread(data, bytes); }
COstream to_Ostream(FILE *F) { return COstream(F); }
StdOstream to_Ostream(std::ostream &out) { return StdOstream(out); }
CIstream to_Istream(FILE *F) { return CIstream(F); }
StdIstream to_Istream(std::istream &in) { return StdIstream(in); }
void CIstream::getLine(std::string &) const { abort(); }
void CIstream::fread(void *data, size_t bytes) const { buf_read((IoBuf *) F, data, bytes, false); }
bool CIstream::feof() const { IoBuf *b = (IoBuf *) F; return b->pos >= b->limit; }
void StdIstream::getLine(std::string &) const { abort(); }
void StdIstream::fread(void *data, size_t bytes) const { buf_read((IoBuf *) &in, data, bytes, true); }
bool StdIstream::feof() const { IoBuf *b = (IoBuf *) &in; return b->failed || b->pos >= b->limit; }
void COstream::fputs(const std::string &) const { abort(); }
void COstream::fwrite(const void *data, size_t bytes) const { buf_write((IoBuf *) F, data, bytes); }
void StdOstream::fputs(const std::string &) const { abort(); }
void StdOstream::fwrite(const void *data, size_t bytes) const { buf_write((IoBuf *) &out, data, bytes); }
FILE *io_file(IoBuf *b) { return (FILE *) b; }
std::ostream &io_ostream(IoBuf *b) { return *(std::ostream *) b; }
std::istream &io_istream(IoBuf *b) { return *(std::istream *) b; }
void io_open_read(IoBuf *b, bool cxx) { b->pos = 0; b->limit = b->len; b->cut_lo = b->len; b->cxx = cxx; b->failed = false; }

#else
/* =============================================================== native side: the real text layer and transports */
#include <sstream>
#include <stdio.h>
struct IoBuf {
    std::ostringstream out;
    StdOstream *w;
    std::istringstream *in; StdIstream *rcxx;
    FILE *f; CIstream *rc; char *fbuf;
    bool cxx;
    size_t consumed_hint;
    const uint8_t *watch_q; size_t watch_m;
};
IoBuf *io_new() { IoBuf *b = new IoBuf(); b->w = new StdOstream(b->out); b->in = 0; b->rcxx = 0; b->f = 0; b->rc = 0; b->fbuf = 0; b->cxx = true; b->watch_q = 0; return b; }
void io_delete(IoBuf *b) {}
const Ostream &io_writer(IoBuf *b) { return *b->w; }
/* model offsets -> real offsets: the harness only uses limits it derives from io_size(), so natively a limit is scaled
   onto the real byte string (replay of a truncation counterexample keeps the same relative cut inside the same section) */
const Istream &io_reader(IoBuf *b, size_t limit, bool cxx) {
    std::string s = b->out.str();
    if (limit < s.size()) s.resize(limit);
    b->cxx = cxx;
    if (cxx) { b->in = new std::istringstream(s); b->rcxx = new StdIstream(*b->in); return *b->rcxx; }
    b->fbuf = (char *) malloc(s.size() + 1);
    memcpy(b->fbuf, s.data(), s.size());
    b->f = fmemopen(b->fbuf, s.size() ? s.size() : 1, "rb");
    if (!s.size()) { fgetc(b->f); }
    b->rc = new CIstream(b->f);
    return *b->rc;
}
static int nat_regions(const std::string &s, int R, size_t *lo, size_t *hi, bool *text) {
    int n = 0; size_t at = 0;
    while (at < s.size()) {
        size_t bpos = s.find("-----BEGIN ", at);
        size_t next = bpos == std::string::npos ? s.size() : bpos;
        if (next > at) { if (n == R) { *lo = at; *hi = next; *text = false; } n++; }
        if (bpos == std::string::npos) break;
        size_t e = s.find("-----END ", bpos);
        size_t eol = s.find('\n', e);
        size_t end = eol == std::string::npos ? s.size() : eol + 1;
        if (n == R) { *lo = bpos; *hi = end; *text = true; }
        n++; at = end;
    }
    return n;
}
int io_regions(IoBuf *b) { size_t lo = 0, hi = 0; bool t = false; return nat_regions(b->out.str(), -1, &lo, &hi, &t); }
bool io_region_is_text(IoBuf *b, int R) { size_t lo = 0, hi = 0; bool t = false; nat_regions(b->out.str(), R, &lo, &hi, &t); return t; }
const Istream &io_reader_region(IoBuf *b, int R, size_t d, bool cxx) {
    size_t lo = 0, hi = 0; bool t = false;
    nat_regions(b->out.str(), R, &lo, &hi, &t);
    /* inside a text section every byte offset is a real crash point: the symbolic d picks one. The single prefix that lacks
       only the trailing newline of the section still contains the complete section (getline returns the END line at EOF), so
       it is not a truncated object: excluded (hi - 1 is the newline) */
    size_t len = hi > lo + (t ? 1 : 0) ? hi - lo - (t ? 1 : 0) : 1;
    return io_reader(b, lo + (d % len), cxx);
}
bool io_failed(IoBuf *b) { return b->cxx ? (b->in && !*b->in) : false; }
size_t io_size(IoBuf *b) { return b->out.str().size(); }
size_t io_consumed(IoBuf *b) { if (b->cxx) { if (!b->in || !*b->in) return io_size(b); return (size_t) b->in->tellg(); } return b->f ? (size_t) ftell(b->f) : 0; }
size_t io_binary_bytes(IoBuf *b) { return 0; }
int io_records(IoBuf *b) { std::string s = b->out.str(); int n = 0; size_t p = 0; while ((p = s.find("-----BEGIN ", p)) != std::string::npos) { n++; p++; } return n; }
void io_watch(IoBuf *b, const void *q, size_t m) { b->watch_q = (const uint8_t *) q; b->watch_m = m; }
bool io_watch_hit(IoBuf *b) { return false; }   /* "which addresses were read" has no native counterpart (a substring search gives chance hits on keys like {0,0}) */
/* natively the EXPORTed API gets real handles: a FILE* opened on a memory stream / the string stream itself */
static char *g_fbuf[8]; static size_t g_flen[8]; static FILE *g_f[8]; static IoBuf *g_fb[8]; static int g_nf = 0;
static void io_sync(IoBuf *b) {   /* fold what was written through a FILE* into the string stream */
    for (int i = 0; i < g_nf; i++) if (g_fb[i] == b && g_f[i]) { fflush(g_f[i]); b->out.write(g_fbuf[i], g_flen[i]); fclose(g_f[i]); g_f[i] = 0; free(g_fbuf[i]); }
}
FILE *io_file(IoBuf *b) {
    if (b->f) return b->f;                       /* opened for reading */
    for (int i = 0; i < g_nf; i++) if (g_fb[i] == b && g_f[i]) return g_f[i];
    int i = g_nf++ % 8;
    g_fb[i] = b; g_f[i] = open_memstream(&g_fbuf[i], &g_flen[i]);
    return g_f[i];
}
std::ostream &io_ostream(IoBuf *b) { return b->out; }
std::istream &io_istream(IoBuf *b) { return *b->in; }
void io_open_read(IoBuf *b, bool cxx) { io_sync(b); io_reader(b, io_size(b), cxx); }
bool io_is_prefix(IoBuf *a, IoBuf *b) { io_sync(a); io_sync(b); std::string x = a->out.str(), y = b->out.str(); return x.size() <= y.size() && y.compare(0, x.size(), x) == 0; }
bool io_equal(IoBuf *a, IoBuf *b) { io_sync(a); io_sync(b); return a->out.str() == b->out.str(); }
#endif
