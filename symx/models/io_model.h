/* M-IO: harness-side view of a serialisation channel.
 *  - under CBMC: Ostream/Istream subclasses over an in-memory byte buffer; the text layer of tfhe_generic_streams.cpp
 *    (std::map, getline, sprintf/strtold) is replaced by atomic *text records* (title + name/value pairs);
 *  - natively (validation, replay): the REAL tfhe_generic_streams.cpp over std::stringstream (C++ transport) or a
 *    FILE* (C transport), so a counterexample is replayed against the real parser/printer. */
#pragma once
#include <stdint.h>
#include <stddef.h>
#include "tfhe_generic_streams.h"

struct IoBuf;
IoBuf *io_new();
void io_delete(IoBuf *b);
const Ostream &io_writer(IoBuf *b);                                     /* appends to the buffer */
const Istream &io_reader(IoBuf *b, size_t limit, bool cxx_transport);   /* reads from offset 0, sees only `limit` bytes */
/* truncated reader for crash-point analysis: the stream is cut inside region R at relative offset d (d is reduced modulo the
   region length). Regions partition the export: every text section is one region, every maximal run of binary bytes is one region.
   Everything before region R is available, everything after it is not; only the cut inside a binary region is symbolic. */
int io_regions(IoBuf *b);
bool io_region_is_text(IoBuf *b, int R);
const Istream &io_reader_region(IoBuf *b, int R, size_t d, bool cxx_transport);
/* handles for the EXPORTed (FILE* / std::stream) API on the same channel */
#include <stdio.h>
#include <iostream>
FILE *io_file(IoBuf *b);
std::ostream &io_ostream(IoBuf *b);
std::istream &io_istream(IoBuf *b);
void io_open_read(IoBuf *b, bool cxx_transport);      /* rewind for reading the whole content through io_file / io_istream */
bool io_failed(IoBuf *b);             /* C++ transport: stream is in a failed state after the reads so far */
size_t io_size(IoBuf *b);             /* bytes written so far (model: nominal size, text records count IO_REC_BYTES each) */
size_t io_consumed(IoBuf *b);         /* bytes consumed by the reader so far */
bool io_is_prefix(IoBuf *a, IoBuf *b);   /* content of a is a (not necessarily strict) prefix of the content of b */
bool io_equal(IoBuf *a, IoBuf *b);
size_t io_binary_bytes(IoBuf *b);     /* bytes written through fwrite (binary sections only) */
int io_records(IoBuf *b);             /* number of text sections written */
/* secret-material tracking: does any fwrite source range [p, p+n) written so far intersect [q, q+m) ? */
void io_watch(IoBuf *b, const void *q, size_t m);
bool io_watch_hit(IoBuf *b);
#ifndef IO_REC_BYTES
#define IO_REC_BYTES 16
#endif
