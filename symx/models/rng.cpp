/* M-RNG: the two libstdc++ entry points through which the library draws randomness
 *   std::uniform_int_distribution<int>::operator()(engine&, const param_type&)
 *   std::normal_distribution<double>::operator()(engine&, const param_type&)
 * are replaced by stubs that return an arbitrary value of the requested range / an arbitrary double e with
 * |e| <= RNG_R * sigma, assert that the engine is the library's global `generator`, and append the draw to a log.
 * Everything around the call (gaussian32, dtot32, mask loops, b += a*s) is the real code. */
#include <stdint.h>
#include <random>
#include "symx.h"
#include "rng_model.h"

extern std::default_random_engine generator;

extern "C" {
int32_t rng_n = 0;
int32_t rng_kind[RNG_LOG];     /* 0 uniform int, 1 gaussian */
int32_t rng_lo[RNG_LOG], rng_hi[RNG_LOG];
int32_t rng_ival[RNG_LOG];
double rng_sigma[RNG_LOG], rng_mean[RNG_LOG], rng_dval[RNG_LOG];
int32_t rng_bad_engine = 0;
double rng_R = 10.0;

#ifdef SYMX_NATIVE
#define UNIFORM_NAME __asm__("_ZNSt24uniform_int_distributionIiEclISt26linear_congruential_engineImLm16807ELm0ELm2147483647EEEEiRT_RKNS0_10param_typeE")
#define NORMAL_NAME __asm__("_ZNSt19normal_distributionIdEclISt26linear_congruential_engineImLm16807ELm0ELm2147483647EEEEdRT_RKNS0_10param_typeE")
#else
#define UNIFORM_NAME
#define NORMAL_NAME
#endif

int32_t stub_uniform_int(void *dist, void *engine, const int32_t *param) UNIFORM_NAME;
double stub_normal(void *dist, void *engine, const double *param) NORMAL_NAME;

#if STUB_ON(stub_uniform_int)
int32_t stub_uniform_int(void *dist, void *engine, const int32_t *param) {
    int32_t lo = param[0], hi = param[1];
    int32_t v = nondet_i32();
    ASSUME(v >= lo && v <= hi);
    if (engine != (void *) &generator) rng_bad_engine = 1;
    if (rng_n < RNG_LOG) {
        rng_kind[rng_n] = 0; rng_lo[rng_n] = lo; rng_hi[rng_n] = hi; rng_ival[rng_n] = v; rng_n++;
    }
    return v;
}
#endif

#if STUB_ON(stub_normal)
/* libstdc++'s normal_distribution produces variates in pairs (Marsaglia polar method): every other call returns the value saved by
   the previous call on the SAME distribution object and consumes no engine output. The stub keeps that bookkeeping in the real
   object (layout below, checked against sizeof) so that a sampler object that outlives a call - and a re-seed - is visible:
   rng_stale_used is set when a draw returns a variate that was computed before the last re-seed (rng_epoch is advanced by the
   harness after each call of tfhe_random_generator_setSeed). */
struct NormalDistLayout { double mean, stddev, saved; bool saved_available; };
static_assert(sizeof(std::normal_distribution<double>) == sizeof(NormalDistLayout), "libstdc++ normal_distribution layout");
int32_t rng_epoch = 0, rng_stale_used = 0;
static int32_t rng_saved_epoch = 0;
double stub_normal(void *dist, void *engine, const double *param) {
    double mean = param[0], sigma = param[1];
    NormalDistLayout *nd = (NormalDistLayout *) dist;
    if (nd->saved_available) {
        nd->saved_available = false;
        if (rng_saved_epoch != rng_epoch) rng_stale_used = 1;
    } else {
        nd->saved_available = true;
        rng_saved_epoch = rng_epoch;
    }
    double e = nondet_f64();
    ASSUME(e >= -rng_R * sigma && e <= rng_R * sigma);
    if (engine != (void *) &generator) rng_bad_engine = 1;
    if (rng_n < RNG_LOG) {
        rng_kind[rng_n] = 1; rng_sigma[rng_n] = sigma; rng_mean[rng_n] = mean; rng_dval[rng_n] = mean + e; rng_n++;
    }
    return mean + e;   /* rng_dval logs the returned value */
}
#endif
}
