/* M-FFT-ideal: the back-end interface of lagrangehalfc_arithmetic.h implemented over exact coefficient
 * vectors in Z/2^32[X]/(X^N+1) (negacyclic schoolbook). This is the contract property C10 states for the
 * real back-ends (exact product, up to 2 units); it is used wherever a property is about the core algebra
 * and the FFT is environment (assumption A2). It also lifts the real back-ends' N==1024 restriction. */
#include <stdint.h>
#include <stdlib.h>
#include "tfhe_core.h"
#include "polynomials.h"
#include "lagrangehalfc_arithmetic.h"

struct IdealLagrange {
    int32_t N;
    uint32_t *c;
};

static inline IdealLagrange *IL(const LagrangeHalfCPolynomial *p) { return (IdealLagrange *) p->data; }

EXPORT void init_LagrangeHalfCPolynomial(LagrangeHalfCPolynomial *obj, const int32_t N) {
    IdealLagrange *d = (IdealLagrange *) malloc(sizeof(IdealLagrange));
    d->N = N;
    d->c = (uint32_t *) malloc(sizeof(uint32_t) * (size_t) N);
    obj->data = d;
    obj->precomp = 0;
}
EXPORT void init_LagrangeHalfCPolynomial_array(int32_t nbelts, LagrangeHalfCPolynomial *obj, const int32_t N) {
    for (int32_t i = 0; i < nbelts; i++) init_LagrangeHalfCPolynomial(obj + i, N);
}
EXPORT void destroy_LagrangeHalfCPolynomial(LagrangeHalfCPolynomial *obj) {
    IdealLagrange *d = IL(obj);
    free(d->c);
    free(d);
}
EXPORT void destroy_LagrangeHalfCPolynomial_array(int32_t nbelts, LagrangeHalfCPolynomial *obj) {
    for (int32_t i = 0; i < nbelts; i++) destroy_LagrangeHalfCPolynomial(obj + i);
}
EXPORT void IntPolynomial_ifft(LagrangeHalfCPolynomial *result, const IntPolynomial *p) {
    IdealLagrange *r = IL(result);
    for (int32_t i = 0; i < r->N; i++) r->c[i] = (uint32_t) p->coefs[i];
}
EXPORT void TorusPolynomial_ifft(LagrangeHalfCPolynomial *result, const TorusPolynomial *p) {
    IdealLagrange *r = IL(result);
    for (int32_t i = 0; i < r->N; i++) r->c[i] = (uint32_t) p->coefsT[i];
}
EXPORT void TorusPolynomial_fft(TorusPolynomial *result, const LagrangeHalfCPolynomial *p) {
    IdealLagrange *s = IL(p);
    for (int32_t i = 0; i < s->N; i++) result->coefsT[i] = (Torus32) s->c[i];
}
EXPORT void LagrangeHalfCPolynomialClear(LagrangeHalfCPolynomial *result) {
    IdealLagrange *r = IL(result);
    for (int32_t i = 0; i < r->N; i++) r->c[i] = 0;
}
EXPORT void LagrangeHalfCPolynomialSetTorusConstant(LagrangeHalfCPolynomial *result, const Torus32 mu) {
    IdealLagrange *r = IL(result);
    for (int32_t i = 0; i < r->N; i++) r->c[i] = 0;
    r->c[0] = (uint32_t) mu;
}
EXPORT void LagrangeHalfCPolynomialAddTorusConstant(LagrangeHalfCPolynomial *result, const Torus32 cst) {
    IL(result)->c[0] += (uint32_t) cst;
}
EXPORT void LagrangeHalfCPolynomialSetXaiMinusOne(LagrangeHalfCPolynomial *result, const int32_t ai) {
    IdealLagrange *r = IL(result);
    const int32_t N = r->N;
    for (int32_t i = 0; i < N; i++) r->c[i] = 0;
    if (ai < N) r->c[ai] += 1u; else r->c[ai - N] -= 1u;
    r->c[0] -= 1u;
}
static void ideal_mul(uint32_t *out, const IdealLagrange *a, const IdealLagrange *b) {
    const int32_t N = a->N;
    for (int32_t i = 0; i < N; i++) {
        uint32_t s = 0;
        for (int32_t j = 0; j <= i; j++) s += a->c[j] * b->c[i - j];
        for (int32_t j = i + 1; j < N; j++) s -= a->c[j] * b->c[N + i - j];
        out[i] = s;
    }
}
EXPORT void LagrangeHalfCPolynomialMul(LagrangeHalfCPolynomial *result, const LagrangeHalfCPolynomial *a, const LagrangeHalfCPolynomial *b) {
    IdealLagrange *r = IL(result);
    uint32_t *t = (uint32_t *) malloc(sizeof(uint32_t) * (size_t) r->N);
    ideal_mul(t, IL(a), IL(b));
    for (int32_t i = 0; i < r->N; i++) r->c[i] = t[i];
    free(t);
}
EXPORT void LagrangeHalfCPolynomialAddTo(LagrangeHalfCPolynomial *accum, const LagrangeHalfCPolynomial *a) {
    IdealLagrange *r = IL(accum);
    for (int32_t i = 0; i < r->N; i++) r->c[i] += IL(a)->c[i];
}
EXPORT void LagrangeHalfCPolynomialAddMul(LagrangeHalfCPolynomial *accum, const LagrangeHalfCPolynomial *a, const LagrangeHalfCPolynomial *b) {
    IdealLagrange *r = IL(accum);
    uint32_t *t = (uint32_t *) malloc(sizeof(uint32_t) * (size_t) r->N);
    ideal_mul(t, IL(a), IL(b));
    for (int32_t i = 0; i < r->N; i++) r->c[i] += t[i];
    free(t);
}
EXPORT void LagrangeHalfCPolynomialSubMul(LagrangeHalfCPolynomial *accum, const LagrangeHalfCPolynomial *a, const LagrangeHalfCPolynomial *b) {
    IdealLagrange *r = IL(accum);
    uint32_t *t = (uint32_t *) malloc(sizeof(uint32_t) * (size_t) r->N);
    ideal_mul(t, IL(a), IL(b));
    for (int32_t i = 0; i < r->N; i++) r->c[i] -= t[i];
    free(t);
}
