#pragma once
#include <stdint.h>
#ifndef RNG_LOG
#define RNG_LOG 64
#endif
extern "C" {
extern int32_t rng_n;
extern int32_t rng_kind[RNG_LOG];
extern int32_t rng_lo[RNG_LOG], rng_hi[RNG_LOG];
extern int32_t rng_ival[RNG_LOG];
extern double rng_sigma[RNG_LOG], rng_mean[RNG_LOG], rng_dval[RNG_LOG];
extern int32_t rng_bad_engine;
extern double rng_R;
extern int32_t rng_epoch, rng_stale_used;
}
#define RNG_STUBS {"_ZNSt24uniform_int_distributionIiEclISt26linear_congruential_engineImLm16807ELm0ELm2147483647EEEEiRT_RKNS0_10param_typeE": "stub_uniform_int", \
                   "_ZNSt19normal_distributionIdEclISt26linear_congruential_engineImLm16807ELm0ELm2147483647EEEEdRT_RKNS0_10param_typeE": "stub_normal"}
