/* C11 -- exact polynomial arithmetic in Z[X]/(X^N+1) mod 2^32 (multiplication.cpp, toruspolynomial-functions.cpp) */
#include "symx.h"
#include "tfhe.h"
#include "polynomials_arithmetic.h"
extern "C" void symx_observe(uint64_t);

#ifndef PN
#define PN 4
#endif
#ifndef MULFN
#define MULFN torusPolynomialMultNaive
#endif
#ifndef ACCFN
#define ACCFN torusPolynomialAddMulRKaratsuba
#endif
#ifndef ACCSIGN
#define ACCSIGN 1
#endif

/* oracle: schoolbook product into 2N coefficients in a different loop order, then reduction X^N = -1.
   Products are taken in 32 bits (wrap-around), exactly the ring Z/2^32[X]/(X^N+1). */
static void o_negacyclic(uint32_t *r, const uint32_t *a, const uint32_t *b) {
    uint32_t c[2 * PN];
    for (int i = 0; i < 2 * PN; i++) c[i] = 0;
    for (int k = 0; k < PN; k++)
        for (int j = 0; j < PN; j++) c[j + k] += a[j] * b[k];
    for (int i = 0; i < PN; i++) r[i] = c[i] - c[i + PN];
}

/* exponent of the monomial: symbolic over [0,2N), or the per-query constant AFIX (exhaustive enumeration for larger N) */
static inline uint32_t EXPONENT() {
#ifdef AFIX
    return AFIX;
#else
    uint32_t a = nondet_u32();
    ASSUME(a < 2 * PN);
    return a;
#endif
}
static void fill(uint32_t *x, int n) { for (int i = 0; i < n; i++) x[i] = nondet_u32(); }

HARNESS(h_mult) {
    IntPolynomial *a = new_IntPolynomial(PN);
    TorusPolynomial *b = new_TorusPolynomial(PN);
    TorusPolynomial *r = new_TorusPolynomial(PN);
    uint32_t xa[PN], xb[PN], o[PN];
    fill(xa, PN); fill(xb, PN);
    for (int i = 0; i < PN; i++) { a->coefs[i] = (int32_t) xa[i]; b->coefsT[i] = (Torus32) xb[i]; }
    MULFN(r, a, b);
    o_negacyclic(o, xa, xb);
    for (int i = 0; i < PN; i++) {
        symx_observe((uint32_t) r->coefsT[i]);
        CHECK((uint32_t) r->coefsT[i] == o[i] + (CANARY && i == PN - 1 ? xa[0] : 0), "C11 product equals the exact negacyclic product");
        CHECK((uint32_t) a->coefs[i] == xa[i] && (uint32_t) b->coefsT[i] == xb[i], "C11 product operands unchanged");
    }
    delete_TorusPolynomial(r); delete_TorusPolynomial(b); delete_IntPolynomial(a);
    symx_witness();
}

HARNESS(h_accmul) {
    IntPolynomial *a = new_IntPolynomial(PN);
    TorusPolynomial *b = new_TorusPolynomial(PN);
    TorusPolynomial *r = new_TorusPolynomial(PN);
    uint32_t xa[PN], xb[PN], xr[PN], o[PN];
    fill(xa, PN); fill(xb, PN); fill(xr, PN);
    for (int i = 0; i < PN; i++) { a->coefs[i] = (int32_t) xa[i]; b->coefsT[i] = (Torus32) xb[i]; r->coefsT[i] = (Torus32) xr[i]; }
    ACCFN(r, a, b);
    o_negacyclic(o, xa, xb);
    for (int i = 0; i < PN; i++) {
        symx_observe((uint32_t) r->coefsT[i]);
        uint32_t want = ACCSIGN > 0 ? xr[i] + o[i] : xr[i] - o[i];
        CHECK((uint32_t) r->coefsT[i] == want + CANARY, "C11 multiply-accumulate equals r +- exact product");
    }
    delete_TorusPolynomial(r); delete_TorusPolynomial(b); delete_IntPolynomial(a);
    symx_witness();
}

/* X^a * p for a in [0,2N): coefficient i moves to (i+a) mod N with sign (-1)^floor((i+a)/N) */
static void o_mulxai(uint32_t *out, uint32_t a, const uint32_t *in) {
    for (uint32_t i = 0; i < PN; i++) {
        uint32_t k = i + a;
        uint32_t q = k / PN, idx = k % PN;
        out[idx] = (q & 1) ? (uint32_t) 0 - in[i] : in[i];
    }
}

HARNESS(h_mulbyxai) {
    TorusPolynomial *s = new_TorusPolynomial(PN);
    TorusPolynomial *r = new_TorusPolynomial(PN);
    uint32_t x[PN], o[PN];
    fill(x, PN);
    uint32_t a = EXPONENT();
    for (int i = 0; i < PN; i++) s->coefsT[i] = (Torus32) x[i];
    torusPolynomialMulByXai(r, (int32_t) a, s);
    o_mulxai(o, a + CANARY, x);
    for (int i = 0; i < PN; i++) {
        symx_observe((uint32_t) r->coefsT[i]);
        CHECK((uint32_t) r->coefsT[i] == o[i], "C11 X^a * p");
        CHECK((uint32_t) s->coefsT[i] == x[i], "C11 X^a * p leaves the source unchanged");
    }
    delete_TorusPolynomial(r); delete_TorusPolynomial(s);
    symx_witness();
}

HARNESS(h_mulbyxai_minus_one) {
    TorusPolynomial *s = new_TorusPolynomial(PN);
    TorusPolynomial *r = new_TorusPolynomial(PN);
    IntPolynomial *is = new_IntPolynomial(PN);
    IntPolynomial *ir = new_IntPolynomial(PN);
    uint32_t x[PN], o[PN];
    fill(x, PN);
    uint32_t a = EXPONENT();
    for (int i = 0; i < PN; i++) { s->coefsT[i] = (Torus32) x[i]; is->coefs[i] = (int32_t) x[i]; }
    torusPolynomialMulByXaiMinusOne(r, (int32_t) a, s);
    intPolynomialMulByXaiMinusOne(ir, (int32_t) a, is);
    o_mulxai(o, a, x);
    for (int i = 0; i < PN; i++) {
        symx_observe((uint32_t) r->coefsT[i]);
        CHECK((uint32_t) r->coefsT[i] == o[i] - x[i] + CANARY, "C11 (X^a - 1) * p (torus)");
        CHECK((uint32_t) ir->coefs[i] == o[i] - x[i], "C11 (X^a - 1) * p (int)");
    }
    delete_IntPolynomial(ir); delete_IntPolynomial(is); delete_TorusPolynomial(r); delete_TorusPolynomial(s);
    symx_witness();
}

/* X^a (X^b p) == X^((a+b) mod 2N) p, and X^N p == -p */
HARNESS(h_monomial_group) {
    TorusPolynomial *s = new_TorusPolynomial(PN);
    TorusPolynomial *t = new_TorusPolynomial(PN);
    TorusPolynomial *u = new_TorusPolynomial(PN);
    TorusPolynomial *v = new_TorusPolynomial(PN);
    uint32_t x[PN];
    fill(x, PN);
    uint32_t a = EXPONENT(), b = nondet_u32();
    ASSUME(b < 2 * PN);
    for (int i = 0; i < PN; i++) s->coefsT[i] = (Torus32) x[i];
    torusPolynomialMulByXai(t, (int32_t) b, s);
    torusPolynomialMulByXai(u, (int32_t) a, t);
    torusPolynomialMulByXai(v, (int32_t) ((a + b + CANARY) % (2 * PN)), s);
    for (int i = 0; i < PN; i++) CHECK(u->coefsT[i] == v->coefsT[i], "C11 X^a X^b = X^(a+b mod 2N)");
    torusPolynomialMulByXai(t, PN, s);
    for (int i = 0; i < PN; i++) CHECK((uint32_t) t->coefsT[i] == (uint32_t) 0 - x[i], "C11 X^N = -1");
    delete_TorusPolynomial(v); delete_TorusPolynomial(u); delete_TorusPolynomial(t); delete_TorusPolynomial(s);
    symx_witness();
}

/* coefficient-wise operations, scalar p symbolic (INT32_MIN included) */
HARNESS(h_coefwise) {
    TorusPolynomial *r = new_TorusPolynomial(PN);
    TorusPolynomial *p1 = new_TorusPolynomial(PN);
    TorusPolynomial *p2 = new_TorusPolynomial(PN);
    IntPolynomial *i1 = new_IntPolynomial(PN);
    IntPolynomial *i2 = new_IntPolynomial(PN);
    uint32_t x1[PN], x2[PN], xr[PN];
    fill(x1, PN); fill(x2, PN); fill(xr, PN);
    uint32_t p = nondet_u32();
#define LOAD() for (int i = 0; i < PN; i++) { p1->coefsT[i] = (Torus32) x1[i]; p2->coefsT[i] = (Torus32) x2[i]; r->coefsT[i] = (Torus32) xr[i]; }
#define EXPECT(expr, msg) for (int i = 0; i < PN; i++) { symx_observe((uint32_t) r->coefsT[i]); CHECK((uint32_t) r->coefsT[i] == (uint32_t) (expr), msg); \
                                                         CHECK((uint32_t) p1->coefsT[i] == x1[i] && (uint32_t) p2->coefsT[i] == x2[i], "C11 coefficient-wise operands unchanged"); }
    LOAD(); torusPolynomialClear(r); EXPECT(0, "C11 clear");
    LOAD(); torusPolynomialCopy(r, p1); EXPECT(x1[i], "C11 copy");
    LOAD(); torusPolynomialAdd(r, p1, p2); EXPECT(x1[i] + x2[i], "C11 add");
    LOAD(); torusPolynomialAddTo(r, p2); EXPECT(xr[i] + x2[i] + CANARY, "C11 addTo");
    LOAD(); torusPolynomialSub(r, p1, p2); EXPECT(x1[i] - x2[i], "C11 sub");
    LOAD(); torusPolynomialSubTo(r, p2); EXPECT(xr[i] - x2[i], "C11 subTo");
    LOAD(); torusPolynomialAddMulZ(r, p1, (int32_t) p, p2); EXPECT(x1[i] + p * x2[i], "C11 addMulZ");
    LOAD(); torusPolynomialAddMulZTo(r, (int32_t) p, p2); EXPECT(xr[i] + p * x2[i], "C11 addMulZTo");
    LOAD(); torusPolynomialSubMulZ(r, p1, (int32_t) p, p2); EXPECT(x1[i] - p * x2[i], "C11 subMulZ");
    LOAD(); torusPolynomialSubMulZTo(r, (int32_t) p, p2); EXPECT(xr[i] - p * x2[i], "C11 subMulZTo");
    for (int i = 0; i < PN; i++) { i1->coefs[i] = (int32_t) x1[i]; i2->coefs[i] = (int32_t) x2[i]; }
    intPolynomialAddTo(i1, i2);
    for (int i = 0; i < PN; i++) CHECK((uint32_t) i1->coefs[i] == x1[i] + x2[i], "C11 int addTo");
    intPolynomialCopy(i1, i2);
    for (int i = 0; i < PN; i++) CHECK((uint32_t) i1->coefs[i] == x2[i], "C11 int copy");
    intPolynomialClear(i1);
    for (int i = 0; i < PN; i++) CHECK(i1->coefs[i] == 0 && (uint32_t) i2->coefs[i] == x2[i], "C11 int clear");
    delete_IntPolynomial(i2); delete_IntPolynomial(i1);
    delete_TorusPolynomial(p2); delete_TorusPolynomial(p1); delete_TorusPolynomial(r);
    symx_witness();
}
