/* C12 -- gadget decomposition (tgsw-functions.cpp, tgsw.cpp); scalar and AVX2 lowerings */
#include "symx.h"
#include "tfhe.h"
extern "C" void symx_observe(uint64_t);
extern "C" void Torus32PolynomialDecompH_old(IntPolynomial *result, const TorusPolynomial *sample, const TGswParams *params);

#ifndef PN
#define PN 2
#endif
#ifndef PK
#define PK 1
#endif
#ifndef PL
#define PL 3
#endif
#ifndef PBGBIT
#define PBGBIT 7
#endif

/* oracle, written from the property text (independent of the library's field names):
   offset = Bg/2 * sum_{p<l} 2^(32-(p+1)Bgbit); digit_p(x) = (((x+offset) >> (32-(p+1)Bgbit)) mod Bg) - Bg/2 */
static inline uint32_t o_offset() {
    uint64_t s = 0;
    for (int p = 0; p < PL; p++) s += (uint64_t) 1 << (32 - (p + 1) * PBGBIT);
    return (uint32_t) (s * ((uint64_t) 1 << (PBGBIT - 1)));
}
static inline int32_t o_digit(uint32_t x, int p) {
    uint64_t y = (uint64_t) (uint32_t) (x + o_offset());
    uint64_t f = (y >> (32 - (p + 1) * PBGBIT)) % ((uint64_t) 1 << PBGBIT);
    return (int32_t) ((int64_t) f - ((int64_t) 1 << (PBGBIT - 1)));
}

static void check_digits(const IntPolynomial *res, const uint32_t *x, const char *unused) {
    const int64_t half = (int64_t) 1 << (PBGBIT - 1);
    for (int j = 0; j < PN; j++) {
        uint64_t rec = 0;
        for (int p = 0; p < PL; p++) {
            int32_t d = res[p].coefs[j];
            symx_observe((uint32_t) d);
            CHECK((int64_t) d >= -half && (int64_t) d < half - CANARY, "C12 digit in [-Bg/2,Bg/2)");
            CHECK(d == o_digit(x[j], p), "C12 digit equals the oracle digit (position independent)");
            rec += (uint64_t) (int64_t) d << (32 - (p + 1) * PBGBIT);
        }
        uint32_t diff = x[j] - (uint32_t) rec;       /* mod 2^32 */
        int64_t sd = (int64_t) (int32_t) diff;
        int64_t bound = (int64_t) 1 << (32 - PL * PBGBIT);
        if (PL * PBGBIT == 32) CHECK(diff == 0, "C12 recomposition exact when l*Bgbit=32");
        else CHECK(sd > -bound && sd < bound, "C12 |x - sum d_p Bg^-p| < 2^(32-l*Bgbit)");
    }
}

/* parameter object: derived fields */
HARNESS(h_params) {
    TLweParams *tp = new_TLweParams(PN, PK, 0.0, 1.0);
    TGswParams *gp = new_TGswParams(PL, PBGBIT, tp);
    CHECK(gp->l == PL && gp->Bgbit == PBGBIT, "C12 params l,Bgbit");
    CHECK(gp->Bg == (1 << PBGBIT) && gp->halfBg == (1 << (PBGBIT - 1)) && gp->maskMod == (uint32_t) ((1 << PBGBIT) - 1), "C12 params Bg, halfBg, maskMod");
    CHECK(gp->kpl == (PK + 1) * PL + CANARY, "C12 params kpl=(k+1)l");
    CHECK(gp->offset == o_offset(), "C12 params offset");
    for (int i = 0; i < PL; i++) CHECK((uint32_t) gp->h[i] == (uint32_t) 1 << (32 - (i + 1) * PBGBIT), "C12 params h[i]=Bg^-(i+1)");
    CHECK(gp->tlwe_params == tp && tp->N == PN && tp->k == PK, "C12 params tlwe");
    delete_TGswParams(gp);
    delete_TLweParams(tp);
    symx_witness();
}

HARNESS(h_decomp) {
    TLweParams *tp = new_TLweParams(PN, PK, 0.0, 1.0);
    TGswParams *gp = new_TGswParams(PL, PBGBIT, tp);
    TorusPolynomial *s = new_TorusPolynomial(PN);
    IntPolynomial *res = new_IntPolynomial_array(PL, PN);
    uint32_t x[PN];
    for (int j = 0; j < PN; j++) { x[j] = nondet_u32(); s->coefsT[j] = (Torus32) x[j]; }
    tGswTorus32PolynomialDecompH(res, s, gp);
    for (int j = 0; j < PN; j++) CHECK((uint32_t) s->coefsT[j] == x[j], "C12 input polynomial unchanged after the call");
    CHECK(s->N == PN, "C12 input degree unchanged");
    check_digits(res, x, "");
    delete_IntPolynomial_array(PL, res);
    delete_TorusPolynomial(s);
    delete_TGswParams(gp);
    delete_TLweParams(tp);
    symx_witness();
}

HARNESS(h_decomp_old) {
    TLweParams *tp = new_TLweParams(PN, PK, 0.0, 1.0);
    TGswParams *gp = new_TGswParams(PL, PBGBIT, tp);
    TorusPolynomial *s = new_TorusPolynomial(PN);
    IntPolynomial *res = new_IntPolynomial_array(PL, PN);
    uint32_t x[PN];
    for (int j = 0; j < PN; j++) { x[j] = nondet_u32(); s->coefsT[j] = (Torus32) x[j]; }
    Torus32PolynomialDecompH_old(res, s, gp);
    for (int j = 0; j < PN; j++) CHECK((uint32_t) s->coefsT[j] == x[j], "C12 (old) input polynomial unchanged");
    check_digits(res, x, "");
    delete_IntPolynomial_array(PL, res);
    delete_TorusPolynomial(s);
    delete_TGswParams(gp);
    delete_TLweParams(tp);
    symx_witness();
}

/* TLWE-level wrapper: block i*l+p is digit p of polynomial i, for the k+1 polynomials */
HARNESS(h_tlwe_decomp) {
    TLweParams *tp = new_TLweParams(PN, PK, 0.0, 1.0);
    TGswParams *gp = new_TGswParams(PL, PBGBIT, tp);
    TLweSample *c = new_TLweSample(tp);
    IntPolynomial *res = new_IntPolynomial_array((PK + 1) * PL, PN);
    uint32_t x[PK + 1][PN];
    for (int i = 0; i <= PK; i++)
        for (int j = 0; j < PN; j++) { x[i][j] = nondet_u32(); c->a[i].coefsT[j] = (Torus32) x[i][j]; }
    tGswTLweDecompH(res, c, gp);
    for (int i = 0; i <= PK; i++) {
        for (int j = 0; j < PN; j++) CHECK((uint32_t) c->a[i].coefsT[j] == x[i][j], "C12 TLWE sample unchanged after decomposition");
        check_digits(res + (i + CANARY) % (PK + 1) * PL, x[i], "");
    }
    CHECK(c->b == c->a + PK, "C12 b aliases a[k]");
    delete_IntPolynomial_array((PK + 1) * PL, res);
    delete_TLweSample(c);
    delete_TGswParams(gp);
    delete_TLweParams(tp);
    symx_witness();
}
