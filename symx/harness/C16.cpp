/* C16 -- object life cycles: everything created through the allocation API and released through the matching deletion API is
 * fully freed (CBMC --memory-leak-check), with pointer / bounds / double-free checks on; n in {1,3}, k in {1,2}. */
#include "symx.h"
#include "tfhe.h"
#include "tfhe_gate_bootstrapping_structures.h"
#include "polynomials_arithmetic.h"
#include "lagrangehalfc_arithmetic.h"
#include "rng_model.h"
extern "C" void symx_observe(uint64_t);

#ifndef PLN
#define PLN 3
#endif
#ifndef PN
#define PN 2
#endif
#ifndef PK
#define PK 2
#endif
#ifndef PL
#define PL 2
#endif
#ifndef PBGBIT
#define PBGBIT 8
#endif
#ifndef KT
#define KT 2
#endif
#ifndef KBB
#define KBB 1
#endif
#ifndef LEAK     /* canary: forget one delete */
#define LEAK 0
#endif

HARNESS(h_lifecycle_basic) {
    LweParams *lp = new_LweParams(PLN, 0.0, 1.0);
    TLweParams *tp = new_TLweParams(PN, PK, 0.0, 1.0);
    TGswParams *gp = new_TGswParams(PL, PBGBIT, tp);
    LweKey *lk = new_LweKey(lp);
    LweKey *lka = new_LweKey_array(2, lp);
    LweSample *c = new_LweSample(lp);
    LweSample *ca = new_LweSample_array(3, lp);
    TLweKey *tk = new_TLweKey(tp);
    TLweSample *tc = new_TLweSample(tp);
    TLweSample *tca = new_TLweSample_array(2, tp);
    TLweSampleFFT *tf = new_TLweSampleFFT(tp);
    TGswKey *gk = new_TGswKey(gp);
    TGswSample *g = new_TGswSample(gp);
    TGswSample *ga = new_TGswSample_array(2, gp);
    TGswSampleFFT *gf = new_TGswSampleFFT(gp);
    TGswSampleFFT *gfa = new_TGswSampleFFT_array(2, gp);
    IntPolynomial *ip = new_IntPolynomial(PN);
    IntPolynomial *ipa = new_IntPolynomial_array(3, PN);
    TorusPolynomial *tpo = new_TorusPolynomial(PN);
    TorusPolynomial *tpa = new_TorusPolynomial_array(2, PN);
    LagrangeHalfCPolynomial *lh = new_LagrangeHalfCPolynomial(PN);
    LagrangeHalfCPolynomial *lha = new_LagrangeHalfCPolynomial_array(2, PN);
    /* touch the last element of everything (sizes derive from the parameter objects) */
    c->a[PLN - 1] = 1; ca[2].a[PLN - 1] = 1; lk->key[PLN - 1] = 1; lka[1].key[PLN - 1] = 1;
    tc->a[PK].coefsT[PN - 1] = 1; tca[1].b->coefsT[PN - 1] = 1; tk->key[PK - 1].coefs[PN - 1] = 1;
    g->all_sample[(PK + 1) * PL - 1].b->coefsT[PN - 1] = 1; ga[1].bloc_sample[PK][PL - 1].a[0].coefsT[0] = 1;
    ip->coefs[PN - 1] = 1; ipa[2].coefs[PN - 1] = 1; tpo->coefsT[PN - 1] = 1; tpa[1].coefsT[PN - 1] = 1;
    CHECK(gk->key == gk->tlwe_key.key && gf->sample[PK] == gf->all_samples + PK * PL && gfa[1].k == PK, "C16 object shapes");
    delete_LagrangeHalfCPolynomial_array(2, lha);
    delete_LagrangeHalfCPolynomial(lh);
    delete_TorusPolynomial_array(2, tpa);
    delete_TorusPolynomial(tpo);
    delete_IntPolynomial_array(3, ipa);
    delete_IntPolynomial(ip);
    delete_TGswSampleFFT_array(2, gfa);
    delete_TGswSampleFFT(gf);
    delete_TGswSample_array(2, ga);
    delete_TGswSample(g);
    delete_TGswKey(gk);
    delete_TLweSampleFFT(tf);
    delete_TLweSample_array(2, tca);
    delete_TLweSample(tc);
    delete_TLweKey(tk);
    delete_LweSample_array(3, ca);
#if !LEAK
    delete_LweSample(c);
#endif
    delete_LweKey_array(2, lka);
    delete_LweKey(lk);
    delete_TGswParams(gp);
    delete_TLweParams(tp);
    delete_LweParams(lp);
    symx_witness();
}

/* key material: key-switching key, bootstrapping key, its FFT image, key generation and the secret key set */
HARNESS(h_lifecycle_keys) {
    symx_run_ctors();
    LweParams *lp = new_LweParams(PLN, 0.001, 1.0);
    TLweParams *tp = new_TLweParams(PN, PK, 0.001, 1.0);
    TGswParams *gp = new_TGswParams(PL, PBGBIT, tp);
    LweKeySwitchKey *ks = new_LweKeySwitchKey(PK * PN, KT, KBB, lp);
    LweKeySwitchKey *ksa = new_LweKeySwitchKey_array(2, 1, 1, 1, lp);
    ks->ks[PK * PN - 1][KT - 1][(1 << KBB) - 1].a[PLN - 1] = 1;
    LweKey *lk = new_LweKey(lp);
    TGswKey *gk = new_TGswKey(gp);
    lweKeyGen(lk);
    tGswKeyGen(gk);
    LweBootstrappingKey *bk = new_LweBootstrappingKey(KT, KBB, lp, gp);
    tfhe_createLweBootstrappingKey(bk, lk, gk);
    LweBootstrappingKeyFFT *bf = new_LweBootstrappingKeyFFT(bk);
    delete_LweBootstrappingKeyFFT(bf);
    delete_LweBootstrappingKey(bk);
    delete_TGswKey(gk);
    delete_LweKey(lk);
    delete_LweKeySwitchKey_array(2, ksa);
#if !LEAK
    delete_LweKeySwitchKey(ks);
#endif
    delete_TGswParams(gp);
    delete_TLweParams(tp);
    delete_LweParams(lp);
    symx_witness();
}

/* the gate-level API: random key set, ciphertexts, deletion */
HARNESS(h_lifecycle_gate_api) {
    symx_run_ctors();
    LweParams *lp = new_LweParams(PLN, 0.001, 1.0);
    TLweParams *tp = new_TLweParams(PN, PK, 0.001, 1.0);
    TGswParams *gp = new_TGswParams(PL, PBGBIT, tp);
    TFheGateBootstrappingParameterSet *ps = new TFheGateBootstrappingParameterSet(KT, KBB, lp, gp);
    TFheGateBootstrappingSecretKeySet *sk = new_random_gate_bootstrapping_secret_keyset(ps);
    LweSample *c = new_gate_bootstrapping_ciphertext(ps);
    LweSample *ca = new_gate_bootstrapping_ciphertext_array(2, ps);
    bootsSymEncrypt(c, 1, sk);
    bootsSymEncrypt(&ca[1], 0, sk);
    bootsCONSTANT(&ca[0], 1, &sk->cloud);
    bootsNOT(c, &ca[1], &sk->cloud);
    delete_gate_bootstrapping_ciphertext_array(2, ca);
    delete_gate_bootstrapping_ciphertext(c);
#if !LEAK
    delete_gate_bootstrapping_secret_keyset(sk);
#endif
    delete_gate_bootstrapping_parameters(ps);
    delete_TGswParams(gp);
    delete_TLweParams(tp);
    delete_LweParams(lp);
    symx_witness();
}
