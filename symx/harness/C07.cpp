/* C07 -- fresh randomness plumbing (structure, not statistics): with a recording RNG stub, every key coefficient is a draw from
 * a {0,1} distribution, every mask coefficient of every fresh sample / key row is its own full-range uniform draw, every row's
 * phase minus its message is the torus image of ONE gaussian draw whose sigma is exactly the configured level, and all draws come
 * from the library's global generator. (LWE / TLWE / gate ciphertexts: C03 b,e,g; key-switching key: C08 Q3.) */
#include "symx.h"
#include "tfhe.h"
#include "tfhe_gate_bootstrapping_structures.h"
#include "rng_model.h"
#include "polynomials_arithmetic.h"
extern "C" void symx_observe(uint64_t);
extern "C" Torus32 dtot32(double);

#ifndef PLN
#define PLN 2
#endif
#ifndef PN
#define PN 2
#endif
#ifndef PK
#define PK 1
#endif
#ifndef PL
#define PL 2
#endif
#ifndef PBGBIT
#define PBGBIT 8
#endif
#ifndef KT
#define KT 1
#endif
#ifndef KBB
#define KBB 1
#endif
#define KPL ((PK + 1) * PL)

static bool is_bit_draw(int i) { return rng_kind[i] == 0 && rng_lo[i] == 0 && rng_hi[i] == 1; }
static bool is_full_uniform(int i) { return rng_kind[i] == 0 && rng_lo[i] == INT32_MIN && rng_hi[i] == INT32_MAX; }

/* key generation: binary keys, one draw per coefficient */
HARNESS(h_keygen) {
    symx_run_ctors();
    LweParams *lp = new_LweParams(PLN, 0.0, 1.0);
    TLweParams *tp = new_TLweParams(PN, PK, 0.0, 1.0);
    TGswParams *gp = new_TGswParams(PL, PBGBIT, tp);
    LweKey *lk = new_LweKey(lp);
    TLweKey *tk = new_TLweKey(tp);
    TGswKey *gk = new_TGswKey(gp);
    rng_n = 0;
    lweKeyGen(lk);
    CHECK(rng_n == PLN + CANARY && !rng_bad_engine, "C07 lweKeyGen: n draws from the library generator");
    for (int i = 0; i < PLN; i++) CHECK(is_bit_draw(i) && lk->key[i] == rng_ival[i], "C07 LWE key coefficient i is the i-th draw of a {0,1} distribution");
    rng_n = 0;
    tLweKeyGen(tk);
    CHECK(rng_n == PK * PN && !rng_bad_engine, "C07 tLweKeyGen: k*N draws");
    for (int i = 0; i < PK; i++) for (int j = 0; j < PN; j++) CHECK(is_bit_draw(i * PN + j) && tk->key[i].coefs[j] == rng_ival[i * PN + j], "C07 ring key coefficient is its own {0,1} draw");
    rng_n = 0;
    tGswKeyGen(gk);
    CHECK(rng_n == PK * PN && !rng_bad_engine, "C07 tGswKeyGen: k*N draws");
    for (int i = 0; i < PK; i++) for (int j = 0; j < PN; j++) CHECK(is_bit_draw(i * PN + j) && gk->key[i].coefs[j] == rng_ival[i * PN + j] && gk->key == gk->tlwe_key.key, "C07 TGSW key = its TLWE key, binary draws");
    TorusPolynomial *u = new_TorusPolynomial(PN);
    rng_n = 0;
    torusPolynomialUniform(u);
    CHECK(rng_n == PN, "C07 torusPolynomialUniform: N draws");
    for (int j = 0; j < PN; j++) CHECK(is_full_uniform(j) && u->coefsT[j] == rng_ival[j], "C07 uniform polynomial coefficient is its own full-range draw");
    symx_witness();
}

/* oracle phase of a TLWE row under a binary ring key */
static void o_phase(uint32_t *ph, const TLweSample *c, const TLweKey *key) {
    for (int j = 0; j < PN; j++) ph[j] = (uint32_t) c->b->coefsT[j];
    for (int i = 0; i < PK; i++)
        for (int t = 0; t < PN; t++) {
            uint32_t acc = 0;
            for (int j = 0; j <= t; j++) acc += (uint32_t) key->key[i].coefs[j] * (uint32_t) c->a[i].coefsT[t - j];
            for (int j = t + 1; j < PN; j++) acc -= (uint32_t) key->key[i].coefs[j] * (uint32_t) c->a[i].coefsT[PN + t - j];
            ph[t] -= acc;
        }
}
/* checks the rows of one fresh TGSW encryption of the integer `msg`, whose draws start at log position `at`; returns the next position */
static int check_tgsw_rows(const TGswSample *g, const TGswKey *gk, uint32_t msg, double sigma, int at, const char *unused) {
    for (int p = 0; p < KPL; p++) {
        const TLweSample *row = &g->all_sample[p];
        uint32_t ph[PN];
        o_phase(ph, row, &gk->tlwe_key);
        /* draws of one row: N gaussians (body noise), then k*N uniforms (masks) */
        for (int j = 0; j < PN; j++) CHECK(rng_kind[at + j] == 1 && rng_sigma[at + j] == sigma && rng_mean[at + j] == 0.0, "C07 TGSW row noise: gaussian with exactly the configured sigma [sampling idiom]");
        /* message of row p = bl*l+q : msg * Bg^-(q+1) added to coefficient 0 of polynomial bl (a mask polynomial for bl<k, the body for bl=k):
           in phase, -s_bl * msg*h_q for bl<k, msg*h_q for bl=k */
        int bl = p / PL, q = p % PL;
        uint32_t hq = (uint32_t) 1 << (32 - (q + 1) * PBGBIT);
        for (int i = 0; i < PK; i++) for (int j = 0; j < PN; j++)
            CHECK(is_full_uniform(at + PN + i * PN + j) && (uint32_t) row->a[i].coefsT[j] == (uint32_t) rng_ival[at + PN + i * PN + j] + ((i == bl && j == 0) ? msg * hq : 0u),
                  "C07 TGSW row mask coefficient is its own full-range draw (plus the gadget message on the block diagonal)");
        for (int j = 0; j < PN; j++) {
            uint32_t m;
            if (bl == PK) m = (j == 0) ? msg * hq : 0u;
            else m = 0u - (uint32_t) gk->tlwe_key.key[bl].coefs[j] * (msg * hq);      /* -(s_bl * msg*h_q)(X) for a constant message */
            symx_observe(ph[j]);
            CHECK(ph[j] == m + (uint32_t) dtot32(rng_dval[at + j]) + CANARY, "C07 TGSW row phase = gadget message + the torus image of its own gaussian draw");
        }
        at += PN + PK * PN;
    }
    return at;
}
HARNESS(h_tgsw_encrypt) {
    symx_run_ctors();
    TLweParams *tp = new_TLweParams(PN, PK, 0.0, 1.0);
    TGswParams *gp = new_TGswParams(PL, PBGBIT, tp);
    TGswKey *gk = new_TGswKey(gp);
    for (int i = 0; i < PK; i++) for (int j = 0; j < PN; j++) { uint32_t b = nondet_u32(); ASSUME(b <= 1); gk->key[i].coefs[j] = (int32_t) b; }
    TGswSample *g = new_TGswSample(gp);
    double alpha = nondet_f64();
    ASSUME(alpha > 0.0 && alpha <= 0.25);
    uint32_t msg = nondet_u32();
    rng_n = 0;
    tGswSymEncryptInt(g, (int32_t) msg, alpha, gk);
    int end = check_tgsw_rows(g, gk, msg, alpha, 0, "");
    CHECK(rng_n == end && !rng_bad_engine, "C07 tGswSymEncryptInt: exactly (N + k*N) draws per row, from the library generator");
    symx_witness();
}

/* bootstrapping key: row set i encrypts key bit s_i with the accumulator noise level; key-switching part: C08 Q3 */
HARNESS(h_bootstrapping_key) {
    symx_run_ctors();
    const double a_ks = 0.0009765625, a_bk = 0.000030517578125;
    LweParams *lp = new_LweParams(PLN, a_ks, 1.0);
    TLweParams *tp = new_TLweParams(PN, PK, a_bk, 1.0);
    TGswParams *gp = new_TGswParams(PL, PBGBIT, tp);
    LweKey *lk = new_LweKey(lp);
    TGswKey *gk = new_TGswKey(gp);
    for (int i = 0; i < PLN; i++) { uint32_t b = nondet_u32(); ASSUME(b <= 1); lk->key[i] = (int32_t) b; }
    for (int i = 0; i < PK; i++) for (int j = 0; j < PN; j++) { uint32_t b = nondet_u32(); ASSUME(b <= 1); gk->key[i].coefs[j] = (int32_t) b; }
    LweBootstrappingKey *bk = new_LweBootstrappingKey(KT, KBB, lp, gp);
    rng_n = 0;
    tfhe_createLweBootstrappingKey(bk, lk, gk);
    /* draws: key-switching key first (rows gaussians, then masks), then n TGSW encryptions */
    const int ksrows = PK * PN * KT * ((1 << KBB) - 1);
    for (int r = 0; r < ksrows; r++) CHECK(rng_kind[r] == 1 && rng_sigma[r] == a_ks, "C07 key-switching rows use the input-key noise level alpha_min [sampling idiom]");
    int at = ksrows + ksrows * PLN;
    for (int i = 0; i < PLN; i++) at = check_tgsw_rows(&bk->bk[i], gk, (uint32_t) lk->key[i], a_bk, at, "");
    CHECK(rng_n == at && !rng_bad_engine, "C07 bootstrapping key generation: no draw beyond the rows, all from the library generator");
    symx_witness();
}

/* re-seeding: "re-seeding with the same seed reproduces the same keys and ciphertexts" needs every bit of sampler state to live
 * in the engine that tfhe_random_generator_setSeed resets. The uniform distributions are stateless; the normal distribution
 * saves every second variate inside the distribution object (the stub keeps that bookkeeping, models/rng.cpp). After an
 * arbitrary number of gaussian draws and a re-seed, the next draws must not return a variate saved before the re-seed. */
#ifndef NDRAWS
#define NDRAWS 3
#endif
HARNESS(h_reseed) {
    symx_run_ctors();
    uint32_t seed[2] = { nondet_u32(), nondet_u32() };
    tfhe_random_generator_setSeed(seed, 2);
    rng_epoch++;
    uint32_t k = nondet_u32(); ASSUME(k <= NDRAWS);
    double sigma = nondet_f64(); ASSUME(sigma > 0.0 && sigma < 1.0);
    uint32_t acc = 0;
    for (uint32_t i = 0; i < NDRAWS; i++) if (i < k) acc += (uint32_t) gaussian32((Torus32) nondet_u32(), sigma);
    tfhe_random_generator_setSeed(seed, 2);
    rng_epoch++;
    rng_stale_used = CANARY;
    acc += (uint32_t) gaussian32(0, sigma);
    acc += (uint32_t) gaussian32(0, sigma);
    symx_observe(acc);
    CHECK(!rng_stale_used, "C07 after tfhe_random_generator_setSeed no gaussian draw returns a variate that was computed before the re-seed (all sampler state lives in the engine)");
    symx_witness();
}
