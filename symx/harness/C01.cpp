/* C01 -- every gate computes its truth table: the real gate code of boot-gates.cpp (and bootsSymEncrypt/Decrypt) composed with
 * the contracts of bootstrapping and key switching (established/assumed elsewhere: C04, C08, C02-statistics = assumption A4).
 * inputs: arbitrary masks, binary key, phase anywhere within 1/32 of +-1/8 (fresh, bootstrapped or adversarially noisy alike) */
#include "symx.h"
#include "tfhe.h"
#include "tfhe_gate_bootstrapping_structures.h"
extern "C" void symx_observe(uint64_t);

#ifndef PLN
#define PLN 2
#endif
#ifndef NEXT      /* extracted dimension k*N */
#define NEXT 2
#endif
#ifndef GATE
#define GATE 0
#endif
#ifndef MODE      /* 0: coordinates (arbitrary masks and bodies, no key): which linear combination reaches which callee
                     1: scalars (zero masks, phase = body): margins, truth table, admissible output, through the same real code.
                     phase(x) is an exact ring homomorphism on samples (property C14), so 0+1 give the statement for arbitrary
                     masks; one query with masks, key, margins and decryption together needs 400-900 s per gate (measured) */
#define MODE 1
#endif
#define T1_8 0x20000000u
#define T1_16 0x10000000
#define T1_32 0x08000000
#define T1_64 0x04000000

static uint32_t S[PLN + 1], S2[NEXT];                 /* the secret keys (binary, symbolic) */
static const LweBootstrappingKeyFFT *the_bkfft = 0;
static int bs_calls = 0, bs_bad = 0, ks_calls = 0;
static int64_t bs_margin[2];
static uint32_t bs_xa[2][PLN], bs_xb[2], bs_mu[2];
static int64_t need_margin = T1_16;
#ifndef PLN2
#define PLN2 (PLN + 1)
#endif
static int world_n = PLN;        /* LWE dimension of the key set in use (PLN, or PLN2 for a second key set in the same process) */
static int two_n = 0;            /* > 0: record the first two_n mask coefficients handed to each bootstrapping */
static uint32_t two_xa[2][PLN2];
static uint32_t ks_xa[NEXT], ks_xb;
static uint32_t bs_ra[2][(NEXT > PLN ? NEXT : PLN) + 1], bs_rb[2];

static uint32_t phase_S(const LweSample *c) { uint32_t p = (uint32_t) c->b; for (int i = 0; i < PLN; i++) p -= (uint32_t) c->a[i] * S[i]; return p; }
static uint32_t phase_S2(const LweSample *c) { uint32_t p = (uint32_t) c->b; for (int i = 0; i < NEXT; i++) p -= (uint32_t) c->a[i] * S2[i]; return p; }
/* s*x for s in {+-1,+-2} written with additions only (a product by the constant 0xFFFFFFFE is a multiplier-equivalence
   problem for the SAT back-ends: 900 s, no answer) */
static inline uint32_t lin(int s, uint32_t x) { uint32_t d = (s == 2 || s == -2) ? x + x : x; return s < 0 ? 0u - d : d; }
static int64_t absd(uint32_t x) { int64_t v = (int64_t) (int32_t) x; return v < 0 ? -v : v; }

/* contract of sign bootstrapping: phase(res) = +-mu + e, sign = sign(phase(x)) whenever phase(x) keeps the margin from 0 and 1/2 */
static void bootstrap_contract(LweSample *res, const LweBootstrappingKeyFFT *bk, Torus32 mu, const LweSample *x, int n_out, const uint32_t *key_out, int64_t noise) {
    int c = bs_calls;
    if (c >= 2 || bk != the_bkfft) { bs_bad = 1; return; }
    uint32_t px = phase_S(x);
    int64_t d0 = absd(px), dh = ((int64_t) 1 << 31) - d0;
    bs_margin[c] = d0 < dh ? d0 : dh;
    for (int i = 0; i < PLN; i++) bs_xa[c][i] = (uint32_t) x->a[i];
    for (int i = 0; i < two_n; i++) two_xa[c][i] = (uint32_t) x->a[i];
    bs_xb[c] = (uint32_t) x->b; bs_mu[c] = (uint32_t) mu;
    bool positive = (int32_t) px > 0;
    if (bs_margin[c] < need_margin) positive = nondet_u32() & 1;      /* outside the contract: anything */
    int32_t e = nondet_i32();
    ASSUME((int64_t) e >= -noise && (int64_t) e <= noise);
    uint32_t b = (positive ? (uint32_t) mu : 0u - (uint32_t) mu) + (uint32_t) e;
#if MODE == 0
    b = nondet_u32();
#endif
    for (int i = 0; i < n_out; i++) { uint32_t a = MODE == 0 ? nondet_u32() : 0u; res->a[i] = (Torus32) a; b += a * key_out[i]; }
    res->b = (Torus32) b;
    for (int i = 0; i < n_out; i++) bs_ra[c][i] = (uint32_t) res->a[i];
    bs_rb[c] = b;
    res->current_variance = 0.;
    bs_calls++;
}
#if STUB_ON(stub_tfhe_bootstrap_FFT)
extern "C" void STUBNAME(tfhe_bootstrap_FFT)(LweSample *res, const LweBootstrappingKeyFFT *bk, Torus32 mu, const LweSample *x) {
    bootstrap_contract(res, bk, mu, x, world_n, S, T1_32);
}
#endif
#if STUB_ON(stub_tfhe_bootstrap_woKS_FFT)
extern "C" void STUBNAME(tfhe_bootstrap_woKS_FFT)(LweSample *res, const LweBootstrappingKeyFFT *bk, Torus32 mu, const LweSample *x) {
    bootstrap_contract(res, bk, mu, x, NEXT, S2, T1_64);
}
#endif
/* contract of key switching: same phase under the target key, +- 1/64 */
#if STUB_ON(stub_lweKeySwitch)
extern "C" void STUBNAME(lweKeySwitch)(LweSample *res, const LweKeySwitchKey *ks, const LweSample *x) {
    if (ks != the_bkfft->ks) bs_bad = 1;
    int32_t e = nondet_i32();
    ASSUME(e >= -T1_64 && e <= T1_64);
    uint32_t b = phase_S2(x) + (uint32_t) e;
    for (int i = 0; i < NEXT; i++) ks_xa[i] = (uint32_t) x->a[i];
    ks_xb = (uint32_t) x->b;
#if MODE == 0
    b = nondet_u32();
#endif
    for (int i = 0; i < world_n; i++) { uint32_t a = MODE == 0 ? nondet_u32() : 0u; res->a[i] = (Torus32) a; b += a * S[i % PLN]; }
    res->b = (Torus32) b;
    res->current_variance = 0.;
    ks_calls++;
}
#endif

struct World {
    LweParams *lp; TLweParams *tp; TGswParams *gp; TFheGateBootstrappingParameterSet *ps;
    LweKeySwitchKey *ks; LweBootstrappingKeyFFT *bkfft; TFheGateBootstrappingCloudKeySet *ck;
    LweKey *lk; TGswKey *gk; TFheGateBootstrappingSecretKeySet *sk;
};
static void world(World &w) {
    w.lp = new_LweParams(world_n, 0.0, 1.0);
    w.tp = new_TLweParams(NEXT, 1, 0.0, 1.0);
    w.gp = new_TGswParams(2, 8, w.tp);
    w.ps = new TFheGateBootstrappingParameterSet(1, 1, w.lp, w.gp);
    w.ks = new_LweKeySwitchKey(NEXT, 1, 1, w.lp);
    w.bkfft = new LweBootstrappingKeyFFT(w.lp, w.gp, w.tp, &w.tp->extracted_lweparams, (const TGswSampleFFT *) 0, w.ks);
    w.ck = new TFheGateBootstrappingCloudKeySet(w.ps, 0, w.bkfft);
    w.lk = new_LweKey(w.lp);
    w.gk = new_TGswKey(w.gp);
    for (int i = 0; i < world_n; i++) { S[i] = MODE == 0 ? 0u : nondet_u32(); ASSUME(S[i] <= 1); w.lk->key[i] = (int32_t) S[i]; }
    for (int i = 0; i < NEXT; i++) { S2[i] = MODE == 0 ? 0u : nondet_u32(); ASSUME(S2[i] <= 1); }
    w.sk = new TFheGateBootstrappingSecretKeySet(w.ps, 0, w.bkfft, w.lk, w.gk);
    the_bkfft = w.bkfft;
    bs_calls = 0; bs_bad = 0; ks_calls = 0;
}
/* an admissible encryption of `bit`: arbitrary mask, phase within 1/32 of +-1/8 */
static LweSample *admissible(World &w, int bit, uint32_t *a_out, uint32_t *ph_out) {
    LweSample *c = new_LweSample(w.lp);
    int32_t e = nondet_i32();
    ASSUME(e >= -T1_32 && e <= T1_32);
    uint32_t ph = (bit ? T1_8 : 0u - T1_8) + (uint32_t) e;
    uint32_t b = ph;
#if MODE == 0
    b = nondet_u32();            /* coordinates: any sample at all */
#endif
    for (int i = 0; i < PLN; i++) { uint32_t a = MODE == 0 ? nondet_u32() : 0u; c->a[i] = (Torus32) a; a_out[i] = a; b += a * S[i]; }
    c->b = (Torus32) b;
    c->current_variance = 0.;
    *ph_out = ph;
    return c;
}
static void check_output(World &w, const LweSample *res, int want, int64_t tol) {
#if MODE == 0
    return;
#endif
    int d = bootsSymDecrypt(res, w.sk);
    symx_observe((uint32_t) d);
    CHECK(d == want + CANARY, "C01 the gate output decrypts to the truth-table value");
    uint32_t ph = phase_S(res);
    CHECK(absd(ph - (want ? T1_8 : 0u - T1_8)) <= tol, "C01 the gate output phase is within the noise budget of +-1/8 (admissible input of the next gate)");
}

#if GATE <= 9
HARNESS(h_gate2) {
    World w; world(w);
    int x = nondet_u32() & 1, y = nondet_u32() & 1;
    uint32_t aa[PLN], ab[PLN], pa, pb;
    LweSample *ca = admissible(w, x, aa, &pa), *cb = admissible(w, y, ab, &pb);
    LweSample *res = new_LweSample(w.lp);
    int want; uint32_t cst; int sa, sb;           /* linear combination cst + sa*ca + sb*cb handed to the bootstrapping */
    need_margin = T1_16;
#if GATE == 0
    bootsNAND(res, ca, cb, w.ck); want = !(x && y); cst = T1_8; sa = -1; sb = -1;
#elif GATE == 1
    bootsOR(res, ca, cb, w.ck); want = x || y; cst = T1_8; sa = 1; sb = 1;
#elif GATE == 2
    bootsAND(res, ca, cb, w.ck); want = x && y; cst = 0u - T1_8; sa = 1; sb = 1;
#elif GATE == 3
    need_margin = 2 * T1_16;
    bootsXOR(res, ca, cb, w.ck); want = x ^ y; cst = 2 * T1_8; sa = 2; sb = 2;
#elif GATE == 4
    need_margin = 2 * T1_16;
    bootsXNOR(res, ca, cb, w.ck); want = !(x ^ y); cst = 0u - 2 * T1_8; sa = -2; sb = -2;
#elif GATE == 5
    bootsNOR(res, ca, cb, w.ck); want = !(x || y); cst = 0u - T1_8; sa = -1; sb = -1;
#elif GATE == 6
    bootsANDNY(res, ca, cb, w.ck); want = (!x) && y; cst = 0u - T1_8; sa = -1; sb = 1;
#elif GATE == 7
    bootsANDYN(res, ca, cb, w.ck); want = x && (!y); cst = 0u - T1_8; sa = 1; sb = -1;
#elif GATE == 8
    bootsORNY(res, ca, cb, w.ck); want = (!x) || y; cst = T1_8; sa = -1; sb = 1;
#else
    bootsORYN(res, ca, cb, w.ck); want = x || (!y); cst = T1_8; sa = 1; sb = -1;
#endif
    CHECK(bs_calls == 1 && !bs_bad && ks_calls == 0, "C01 one sign bootstrapping (with key switch) with the cloud key's FFT key");
    CHECK(bs_mu[0] == T1_8, "C01 bootstrapping message MU = 1/8");
    for (int i = 0; i < PLN; i++) CHECK(bs_xa[0][i] == lin(sa, aa[i]) + lin(sb, ab[i]), "C01 bootstrapped sample = const + sa*ca + sb*cb (mask)");
    CHECK(bs_xb[0] == cst + lin(sa, (uint32_t) ca->b) + lin(sb, (uint32_t) cb->b), "C01 bootstrapped sample = const + sa*ca + sb*cb (body)");
#if MODE == 1
    CHECK(bs_margin[0] >= need_margin, "C01 the phase handed to the bootstrapping keeps the sign margin (1/16; 1/8 for XOR/XNOR) for every admissible input");
#else
    for (int i = 0; i < PLN; i++) CHECK((uint32_t) res->a[i] == bs_ra[0][i], "C01 the gate returns the bootstrapped sample unmodified (mask)");
    CHECK((uint32_t) res->b == bs_rb[0] + CANARY, "C01 the gate returns the bootstrapped sample unmodified (body)");
#endif
    check_output(w, res, want, T1_32);
    for (int i = 0; i < PLN; i++) CHECK((uint32_t) ca->a[i] == aa[i] && (uint32_t) cb->a[i] == ab[i], "C01 gate inputs unchanged");
    symx_witness();
}
#elif GATE == 10
HARNESS(h_mux) {
    World w; world(w);
    int x = nondet_u32() & 1, y = nondet_u32() & 1, z = nondet_u32() & 1;
    uint32_t aa[PLN], ab[PLN], ac[PLN], pa, pb, pc;
    LweSample *ca = admissible(w, x, aa, &pa), *cb = admissible(w, y, ab, &pb), *cc = admissible(w, z, ac, &pc);
    LweSample *res = new_LweSample(w.lp);
    need_margin = T1_16;
    bootsMUX(res, ca, cb, cc, w.ck);
    CHECK(bs_calls == 2 && !bs_bad && ks_calls == 1, "C01 MUX = two bootstrappings without key switch + one key switch with bkFFT->ks");
    CHECK(bs_mu[0] == T1_8 && bs_mu[1] == T1_8, "C01 MUX bootstrapping message MU = 1/8");
    for (int i = 0; i < PLN; i++) {
        CHECK(bs_xa[0][i] == aa[i] + ab[i], "C01 MUX first bootstrapped sample = (0,-1/8) + a + b");
        CHECK(bs_xa[1][i] == ac[i] - aa[i], "C01 MUX second bootstrapped sample = (0,-1/8) - a + c");
    }
    CHECK(bs_xb[0] == (0u - T1_8) + (uint32_t) ca->b + (uint32_t) cb->b && bs_xb[1] == (0u - T1_8) - (uint32_t) ca->b + (uint32_t) cc->b, "C01 MUX bootstrapped bodies");
#if MODE == 1
    CHECK(bs_margin[0] >= need_margin && bs_margin[1] >= need_margin, "C01 MUX inner phases keep the 1/16 sign margin");
#else
    for (int i = 0; i < NEXT; i++) CHECK(ks_xa[i] == bs_ra[0][i] + bs_ra[1][i], "C01 MUX key-switches u1 + u2 + (0,1/8) (mask)");
    CHECK(ks_xb == T1_8 + bs_rb[0] + bs_rb[1] + CANARY, "C01 MUX key-switches u1 + u2 + (0,1/8) (body)");
#endif
    check_output(w, res, x ? y : z, 3 * T1_64);
    symx_witness();
}
#else
HARNESS(h_gate1) {
    World w; world(w);
    int x = nondet_u32() & 1;
    uint32_t aa[PLN], pa;
    LweSample *ca = admissible(w, x, aa, &pa);
    LweSample *res = new_LweSample(w.lp);
    int want;
#if GATE == 11
    bootsNOT(res, ca, w.ck); want = !x;
    for (int i = 0; i < PLN; i++) CHECK((uint32_t) res->a[i] == 0u - aa[i], "C01 NOT negates every mask coefficient");
    CHECK((uint32_t) res->b == 0u - (uint32_t) ca->b + (MODE == 0 ? CANARY : 0), "C01 NOT is the exact negation (noise-free)");
#elif GATE == 12
    bootsCOPY(res, ca, w.ck); want = x;
    for (int i = 0; i < PLN; i++) CHECK((uint32_t) res->a[i] == aa[i], "C01 COPY copies every mask coefficient");
    CHECK((uint32_t) res->b == (uint32_t) ca->b + (MODE == 0 ? CANARY : 0), "C01 COPY is exact");
#else
    int v = nondet_i32();
    bootsCONSTANT(res, v, w.ck); want = v != 0;
    CHECK(phase_S(res) == (v ? T1_8 : 0u - T1_8), "C01 CONSTANT is the trivial sample of +-1/8");
    for (int i = 0; i < PLN; i++) CHECK(res->a[i] == 0, "C01 CONSTANT has a zero mask");
#endif
    CHECK(bs_calls == 0 && ks_calls == 0, "C01 NOT/COPY/CONSTANT do not bootstrap");
    check_output(w, res, want, T1_32);
    symx_witness();
}
#endif

/* a second key set with another LWE dimension in the same process: nothing a gate remembers from an earlier call (function-static
   locals) may leak into the next one. coordinates only. */
#ifndef PLN2
#define PLN2 (PLN + 1)
#endif
#if GATE == 0
#define G2 bootsNAND
#define G2SA (-1)
#define G2SB (-1)
#elif GATE == 3
#define G2 bootsXOR
#define G2SA 2
#define G2SB 2
#else
#define G2 bootsAND
#define G2SA 1
#define G2SB 1
#endif
#if GATE <= 10 && MODE == 0
static LweSample *anysample(World &w, int n, uint32_t *a_out) {
    LweSample *c = new_LweSample(w.lp);
    for (int i = 0; i < n; i++) { uint32_t a = nondet_u32(); c->a[i] = (Torus32) a; a_out[i] = a; }
    c->b = (Torus32) nondet_u32();
    c->current_variance = 0.;
    return c;
}
HARNESS(h_two_keysets) {
    World w1; world_n = PLN; world(w1);
    uint32_t a1[PLN2], b1[PLN2], c1[PLN2];
    LweSample *x1 = anysample(w1, PLN, a1), *y1 = anysample(w1, PLN, b1), *z1 = anysample(w1, PLN, c1), *r1 = new_LweSample(w1.lp);
#if GATE == 10
    bootsMUX(r1, x1, y1, z1, w1.ck);
#elif GATE == 0
    bootsNAND(r1, x1, y1, w1.ck);
#elif GATE == 3
    bootsXOR(r1, x1, y1, w1.ck);
#else
    bootsAND(r1, x1, y1, w1.ck);
#endif
    /* second key set, larger dimension; the recorder stubs index by PLN2 from here on */
    World w2; world_n = PLN2; world(w2);
    uint32_t a2[PLN2], b2[PLN2], c2[PLN2];
    LweSample *x2 = anysample(w2, PLN2, a2), *y2 = anysample(w2, PLN2, b2), *z2 = anysample(w2, PLN2, c2), *r2 = new_LweSample(w2.lp);
    two_n = PLN2;
#if GATE == 10
    bootsMUX(r2, x2, y2, z2, w2.ck);
    CHECK(bs_calls == 2 && !bs_bad && ks_calls == 1, "C01 second key set: MUX call structure");
    for (int i = 0; i < PLN2; i++) {
        CHECK(two_xa[0][i] == a2[i] + b2[i] + CANARY, "C01 second key set: MUX first bootstrapped sample = (0,-1/8) + a + b over all n coefficients of THIS key set");
        CHECK(two_xa[1][i] == c2[i] - a2[i], "C01 second key set: MUX second bootstrapped sample over all n coefficients of THIS key set");
    }
#else
    G2(r2, x2, y2, w2.ck);
    CHECK(bs_calls == 1 && !bs_bad, "C01 second key set: call structure");
    for (int i = 0; i < PLN2; i++) CHECK(two_xa[0][i] == lin(G2SA, a2[i]) + lin(G2SB, b2[i]) + CANARY, "C01 second key set: bootstrapped sample over all n coefficients of THIS key set");
#endif
    symx_witness();
}
#endif

/* fresh encryptions are admissible and decrypt correctly (bootsSymEncrypt with the sampler bounded by 1/32) is C03.h_gate_roundtrip */
