/* C13 -- torus rounding and modulus switch (numeric-functions.cpp)
 * One symbolic 32-bit phase per query (all 2^32 values); M is a configuration constant. */
#include "symx.h"
#include "tfhe_core.h"
#include "numeric_functions.h"

#ifndef MSIZE
#define MSIZE 8
#endif
extern "C" void symx_observe(uint64_t);

/* circular distance on Z/(M*2^32): |M*phase - r*2^32| reduced, computed in 128-bit */
static inline unsigned __int128 circ_dist(uint32_t phase, uint32_t r, uint32_t M) {
    unsigned __int128 mod = (unsigned __int128) M << 32;
    unsigned __int128 a = (unsigned __int128) M * phase;        /* < M*2^32 */
    unsigned __int128 b = (unsigned __int128) r << 32;          /* < M*2^32 when r < M */
    unsigned __int128 d = a >= b ? a - b : b - a;
    return d <= mod - d ? d : mod - d;
}

/* q1: the modulus switch returns the integer of [0,M) nearest to M*phase (ties either way) */
HARNESS(h_modswitch_nearest) {
    uint32_t phase = nondet_u32();
    const int32_t M = MSIZE;
    int32_t r = modSwitchFromTorus32((Torus32) phase, M);
    symx_observe((uint32_t) r);
    CHECK(r >= 0 && r < M + CANARY * 0 - (CANARY ? 1 : 0), "C13.q1 modSwitchFromTorus32 result in [0,M)");
    /* exact real-number statement: |M*phase - r*2^32| <= 2^31 on the circle Z/(M*2^32); equality = tie, either way */
    unsigned __int128 tol = (unsigned __int128) 1 << 31;
    if (r >= 0 && r < M) CHECK(circ_dist(phase, (uint32_t) r, (uint32_t) M) <= tol, "C13.q1 modSwitchFromTorus32 is the nearest integer");
    symx_witness();
}

/* q2: approxPhase returns the torus encoding of that same integer */
HARNESS(h_approx_consistent) {
    uint32_t phase = nondet_u32();
    const int32_t M = MSIZE;
    int32_t r = modSwitchFromTorus32((Torus32) phase, M);
    Torus32 a = approxPhase((Torus32) phase, M);
    symx_observe((uint32_t) a);
    CHECK(a == modSwitchToTorus32(r + CANARY, M), "C13.q2 approxPhase == modSwitchToTorus32(modSwitchFromTorus32)");
    symx_witness();
}

/* q3: encoding then modulus-switching any integer of [0,M) returns it unchanged */
HARNESS(h_encode_roundtrip) {
    int32_t mu = nondet_i32();
    const int32_t M = MSIZE;
    ASSUME(mu >= 0 && mu < M);
    Torus32 t = modSwitchToTorus32(mu, M);
    symx_observe((uint32_t) t);
    int32_t back = modSwitchFromTorus32(t + CANARY * (int32_t) (0x80000000u / (uint32_t) M + 1), M);
    CHECK(back == mu, "C13.q3 modSwitchFromTorus32(modSwitchToTorus32(mu)) == mu");
    /* the encoding is the multiple of 2^32/M below mu*2^32/M, within one unit */
    unsigned __int128 exact = ((unsigned __int128) (uint32_t) mu << 32) / (uint32_t) M;
    uint32_t diff = (uint32_t) exact - (uint32_t) t;
    CHECK(diff <= 1u, "C13.q3 modSwitchToTorus32(mu) is mu*2^32/M rounded down within 1 unit");
    symx_witness();
}

/* q4: torus -> real -> torus is the identity; real -> torus is periodic mod 1 */
HARNESS(h_double_roundtrip) {
    uint32_t x = nondet_u32();
    double d = t32tod((Torus32) x);
    CHECK(d >= -0.5 && d < 0.5, "C13.q4 t32tod in [-1/2,1/2)");
    Torus32 y = dtot32(d);
    symx_observe((uint32_t) y);
    CHECK((uint32_t) y == x + CANARY, "C13.q4 dtot32(t32tod(x)) == x");
    symx_witness();
}

#ifndef KMAX
#define KMAX 1024
#endif
HARNESS(h_double_periodic) {
    uint32_t x = nondet_u32();
    int32_t k = nondet_i32();
    ASSUME(k >= -KMAX && k <= KMAX);
    double d = t32tod((Torus32) x) + (double) k;
    Torus32 y = dtot32(d);
    symx_observe((uint32_t) y);
    CHECK((uint32_t) y == x + CANARY, "C13.q4 dtot32(t32tod(x)+k) == x");
    symx_witness();
}
