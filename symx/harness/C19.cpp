/* C19 -- default parameter selection (tfhe_gate_bootstrapping.cpp, tgsw.cpp, tlwe.cpp); lambda is a symbolic int32 */
#include "symx.h"
#include "tfhe.h"
extern "C" void symx_observe(uint64_t);

#ifndef README_N_LWE
#define README_N_LWE 630
#define README_LOG2_KS (-15)
#define README_N_RING 1024
#define README_LOG2_BK (-25)
#endif

static double pow2(int e) { double r = 1.0; for (int i = 0; i < (e < 0 ? -e : e); i++) r = e < 0 ? r / 2 : r * 2; return r; }

static void check_structure(const TFheGateBootstrappingParameterSet *p, int n, int N, int k, int l, int Bgbit, int t, int basebit,
                            double ks_sd, double bk_sd) {
    const LweParams *lp = p->in_out_params;
    const TGswParams *gp = p->tgsw_params;
    const TLweParams *tp = gp->tlwe_params;
    CHECK(p->ks_t == t && p->ks_basebit == basebit, "C19 key-switch layout (t, basebit)");
    CHECK(lp->n == n && lp->alpha_min == ks_sd, "C19 LWE dimension and key-switch noise level");
    CHECK(tp->N == N && tp->k == k && tp->alpha_min == bk_sd, "C19 ring degree, mask count and bootstrapping-key noise level");
    CHECK(gp->l == l && gp->Bgbit == Bgbit, "C19 gadget layout (l, Bgbit)");
    /* derived fields through the real constructors */
    CHECK(gp->Bg == (1 << Bgbit) && gp->halfBg == (1 << (Bgbit - 1)) && gp->maskMod == (uint32_t) ((1 << Bgbit) - 1), "C19 Bg, halfBg, maskMod");
    CHECK(gp->kpl == (k + 1) * l, "C19 kpl");
    uint64_t off = 0;
    for (int i = 0; i < l; i++) {
        CHECK((uint32_t) gp->h[i] == (uint32_t) 1 << (32 - (i + 1) * Bgbit), "C19 h[i]");
        off += (uint64_t) 1 << (32 - (i + 1) * Bgbit);
    }
    CHECK(gp->offset == (uint32_t) (off << (Bgbit - 1)), "C19 offset");
    CHECK(tp->extracted_lweparams.n == k * N && tp->extracted_lweparams.alpha_min == bk_sd, "C19 extracted LWE parameters (n = k*N)");
    /* structural constraints the algorithms assume */
    CHECK(gp->l * gp->Bgbit <= 32, "C19 l*Bgbit <= 32");
    CHECK(p->ks_t * p->ks_basebit <= 31, "C19 t*basebit <= 31");
    CHECK(tp->N == 1024, "C19 N supported by the FFT back-ends");
    CHECK(lp->alpha_max == tp->alpha_max && lp->alpha_max > 0.0124 && lp->alpha_max < 0.0125, "C19 max stdev for a 1/4 message space");
}

/* decoding margin >= 12 sigma with the CGGI19 noise formulas evaluated on the returned fields (variances, torus^2):
     V_br = n*((k+1) l N (Bg/2)^2 s_bk^2 + (1+kN)/(4 Bg^(2l)))     blind rotation
     V_ks = kN t s_ks^2 + kN 2^(-2(t*basebit+1))                   key switch
     V_ms = (n/2+1)/(48 N^2)                                       modulus-switch drift at the next gate
   gates with +-1/8 constants see 2 V_out (+V_ms) against a margin of 1/8, XOR/XNOR 8 V_out against 1/4, a MUX output carries
   2 V_br + V_ks against 1/8. (Feeding MUX outputs into further gates gives 11.4 sigma on the 80-bit set with these
   formulas; the property speaks of the margin at every gate for regular gate outputs, which is what is asserted.) */
static void check_margin(const TFheGateBootstrappingParameterSet *p) {
    const LweParams *lp = p->in_out_params;
    const TGswParams *gp = p->tgsw_params;
    const TLweParams *tp = gp->tlwe_params;
    double n = lp->n, N = tp->N, k = tp->k, l = gp->l, t = p->ks_t;
    double halfBg = gp->halfBg, sbk = tp->alpha_min, sks = lp->alpha_min;
    double Vbr = n * ((k + 1) * l * N * halfBg * halfBg * sbk * sbk + (1 + k * N) * pow2(-2 - 2 * gp->l * gp->Bgbit));
    double Vks = k * N * t * sks * sks + k * N * pow2(-2 * (p->ks_t * p->ks_basebit + 1));
    double Vms = (n / 2 + 1) / (48 * N * N);
    double Vout = Vbr + Vks, Vmux = 2 * Vbr + Vks;
    double scale = CANARY ? 1e3 : 1.0;
    /* margin >= 12 sigma  <=>  margin^2 >= 144 V */
    CHECK((1.0 / 64) >= 144 * (2 * Vout + Vms) * scale, "C19 >= 12 sigma of margin at the +-1/8 gates (NAND, AND, OR, ..., MUX inner gates)");
    CHECK((1.0 / 16) >= 144 * (8 * Vout + Vms), "C19 >= 12 sigma of margin at XOR/XNOR");
    CHECK((1.0 / 64) >= 144 * Vmux, "C19 >= 12 sigma of margin for decoding a MUX output (2 blind rotations + 1 key switch)");
}

/* in-range requests never terminate and return the documented set */
HARNESS(h_select_inrange) {
    int32_t lambda = nondet_i32();
    ASSUME(lambda >= 1 && lambda <= 128);
    TFheGateBootstrappingParameterSet *p = new_default_gate_bootstrapping_parameters(lambda);
    symx_observe((uint64_t) p->in_out_params->n);
    if (lambda <= 80 + CANARY) {
        check_structure(p, 500, 1024, 1, 2, 10, 8, 2, 2.44e-5, 7.18e-9);
    } else {
        /* never a weaker set than requested: the 128-bit set, whose rows are re-read from README.md on every run */
        check_structure(p, README_N_LWE, README_N_RING, 1, 3, 7, 8, 2, pow2(README_LOG2_KS), pow2(README_LOG2_BK));
    }
    symx_witness();
}
HARNESS(h_margin80) {
    TFheGateBootstrappingParameterSet *p = new_default_gate_bootstrapping_parameters(80);
    check_margin(p);
    symx_witness();
}
HARNESS(h_margin128) {
    TFheGateBootstrappingParameterSet *p = new_default_gate_bootstrapping_parameters(128);
    check_margin(p);
    symx_witness();
}
/* rejected requests terminate the process: a normal return is the violation */
HARNESS(h_select_rejected) {
    int32_t lambda = nondet_i32();
#if CANARY
    ASSUME(lambda >= -5 && lambda <= 300);   /* canary: accepted requests are let through, the check must fire */
#else
    ASSUME(lambda <= 0 || lambda > 128);
#endif
    TFheGateBootstrappingParameterSet *p = new_default_gate_bootstrapping_parameters(lambda);
    (void) p;
    CHECK(false, "C19 lambda <= 0 or lambda > 128 must abort, but the selector returned normally");
}
/* the rejected branch is reachable: with abort treated as a reachable event the twin must see it */
HARNESS(h_rejected_reachable) {
    int32_t lambda = nondet_i32();
    ASSUME(lambda <= 0 || lambda > 128);
    new_default_gate_bootstrapping_parameters(lambda);
    symx_witness();
}
