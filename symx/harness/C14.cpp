/* C14 -- ciphertext linear operations act exactly linearly on phases (lwe-functions.cpp, tlwe-functions.cpp, lwe.cpp) */
#include "symx.h"
#include "tfhe.h"
#include "polynomials_arithmetic.h"
extern "C" void symx_observe(uint64_t);
extern "C" void tLweNoiselessTrivialT(TLweSample *result, const Torus32 mu, const TLweParams *params);

#ifndef PLN          /* LWE dimension n */
#define PLN 3
#endif
#ifndef PN           /* ring degree */
#define PN 2
#endif
#ifndef PK
#define PK 1
#endif
#ifndef BINKEY       /* 1: key bits in {0,1} (SAT friendly), 0: arbitrary int32 key (ring identity, INT) */
#define BINKEY 0
#endif

static uint32_t keyword() {
    uint32_t k = nondet_u32();
#if BINKEY
    ASSUME(k <= 1);
#endif
    return k;
}

struct LweFix {
    LweParams *par; LweKey *key; LweSample *c1, *c2;
    uint32_t a1[PLN], a2[PLN], b1, b2, s[PLN];
};
static void lwe_setup(LweFix &f) {
    f.par = new_LweParams(PLN, 0.0, 1.0);
    f.key = new_LweKey(f.par);
    f.c1 = new_LweSample(f.par);
    f.c2 = new_LweSample(f.par);
    for (int i = 0; i < PLN; i++) {
        f.a1[i] = nondet_u32(); f.a2[i] = nondet_u32(); f.s[i] = keyword();
        f.c1->a[i] = (Torus32) f.a1[i]; f.c2->a[i] = (Torus32) f.a2[i]; f.key->key[i] = (int32_t) f.s[i];
    }
    f.b1 = nondet_u32(); f.b2 = nondet_u32();
    f.c1->b = (Torus32) f.b1; f.c2->b = (Torus32) f.b2;
    f.c1->current_variance = 0.; f.c2->current_variance = 0.;
}
static void lwe_free(LweFix &f) { delete_LweSample(f.c2); delete_LweSample(f.c1); delete_LweKey(f.key); delete_LweParams(f.par); }
static uint32_t o_phase(const uint32_t *a, uint32_t b, const uint32_t *s) {
    uint32_t r = b;
    for (int i = 0; i < PLN; i++) r -= a[i] * s[i];
    return r;
}

#define LWE_OP_HARNESS(NAME, CALL, COORD_A, COORD_B, PHASE, MSG)                                                         \
    HARNESS(NAME) {                                                                                                     \
        LweFix f; lwe_setup(f);                                                                                         \
        uint32_t p = nondet_u32(); (void) p;                                                                            \
        uint32_t ph1 = o_phase(f.a1, f.b1, f.s), ph2 = o_phase(f.a2, f.b2, f.s); (void) ph1; (void) ph2;                \
        CALL;                                                                                                           \
        for (int i = 0; i < PLN; i++) {                                                                                 \
            symx_observe((uint32_t) f.c1->a[i]);                                                                        \
            CHECK((uint32_t) f.c1->a[i] == (uint32_t) (COORD_A), MSG " (mask coordinate)");                             \
            CHECK((uint32_t) f.c2->a[i] == f.a2[i], MSG " (operand unchanged)");                                        \
        }                                                                                                               \
        CHECK((uint32_t) f.c1->b == (uint32_t) (COORD_B), MSG " (body)");                                               \
        CHECK((uint32_t) f.c2->b == f.b2, MSG " (operand body unchanged)");                                             \
        CHECK((uint32_t) lwePhase(f.c1, f.key) == (uint32_t) (PHASE) + CANARY, MSG " (phase, real lwePhase)");          \
        lwe_free(f);                                                                                                    \
        symx_witness();                                                                                                 \
    }

LWE_OP_HARNESS(h_lwe_addto, lweAddTo(f.c1, f.c2, f.par), f.a1[i] + f.a2[i], f.b1 + f.b2, ph1 + ph2, "C14 lweAddTo")
LWE_OP_HARNESS(h_lwe_subto, lweSubTo(f.c1, f.c2, f.par), f.a1[i] - f.a2[i], f.b1 - f.b2, ph1 - ph2, "C14 lweSubTo")
LWE_OP_HARNESS(h_lwe_addmulto, lweAddMulTo(f.c1, (int32_t) p, f.c2, f.par), f.a1[i] + p * f.a2[i], f.b1 + p * f.b2, ph1 + p * ph2, "C14 lweAddMulTo")
LWE_OP_HARNESS(h_lwe_submulto, lweSubMulTo(f.c1, (int32_t) p, f.c2, f.par), f.a1[i] - p * f.a2[i], f.b1 - p * f.b2, ph1 - p * ph2, "C14 lweSubMulTo")
LWE_OP_HARNESS(h_lwe_negate, lweNegate(f.c1, f.c2, f.par), 0u - f.a2[i], 0u - f.b2, 0u - ph2, "C14 lweNegate")
LWE_OP_HARNESS(h_lwe_copy, lweCopy(f.c1, f.c2, f.par), f.a2[i], f.b2, ph2, "C14 lweCopy")
LWE_OP_HARNESS(h_lwe_clear, lweClear(f.c1, f.par), 0u, 0u, 0u, "C14 lweClear")
LWE_OP_HARNESS(h_lwe_trivial, lweNoiselessTrivial(f.c1, (Torus32) p, f.par), 0u, p, p, "C14 lweNoiselessTrivial")

/* variance annotation: var1 + p^2 var2 for |p| < 2^15 (the code squares p in int32); IEEE doubles, SAT only */
HARNESS(h_lwe_variance) {
    LweParams *par = new_LweParams(1, 0.0, 1.0);
    LweSample *c1 = new_LweSample(par), *c2 = new_LweSample(par);
    c1->a[0] = 0; c2->a[0] = 0; c1->b = 0; c2->b = 0;
    /* symbolic IEEE double products are out of reach of every SAT back-end (600 s, no answer, even for a canary), so this
       query is run with floating-point +,-,*,/ as uninterpreted functions (commutativity kept): it decides that the
       annotation is computed by the expression var1 + double(p*p)*var2, for all p in (-2^15,2^15) and all variances */
    double v1 = nondet_f64(), v2 = nondet_f64();
    ASSUME(v1 >= 0.0 && v1 <= 1.0 && v2 >= 0.0 && v2 <= 1.0);
    int32_t p = nondet_i32();
    ASSUME(p > -32768 && p < 32768);
    /* |p| < 2^15, so p*p fits an int32 and the library's (p*p) is exact; the oracle converts the same int32 */
    double pp = (double) (int32_t) ((uint32_t) p * (uint32_t) p);
    c1->current_variance = v1; c2->current_variance = v2;
    lweAddMulTo(c1, p, c2, par);
    double want = v1 + pp * v2;
#if CANARY
    want = v1 + (double) p * v2;
#endif
    CHECK(c1->current_variance == want, "C14 variance after lweAddMulTo = var1 + p^2 var2");
    c1->current_variance = v1;
    lweSubMulTo(c1, p, c2, par);
    CHECK(c1->current_variance == v1 + pp * v2, "C14 variance after lweSubMulTo = var1 + p^2 var2");
    c1->current_variance = v1;
    lweAddTo(c1, c2, par);
    CHECK(c1->current_variance == v1 + v2, "C14 variance after lweAddTo");
    c1->current_variance = v1;
    lweSubTo(c1, c2, par);
    CHECK(c1->current_variance == v1 + v2, "C14 variance after lweSubTo");
    lweNoiselessTrivial(c1, 5, par);
    CHECK(c1->current_variance == 0.0, "C14 variance of a trivial sample");
    delete_LweSample(c2); delete_LweSample(c1); delete_LweParams(par);
    symx_witness();
}

/* ---------------------------------------------------------------- TLWE */
struct TFix {
    TLweParams *par; TLweKey *key; TLweSample *c1, *c2;
    uint32_t a1[PK + 1][PN], a2[PK + 1][PN], s[PK][PN];
};
static void t_setup(TFix &f) {
    f.par = new_TLweParams(PN, PK, 0.0, 1.0);
    f.key = new_TLweKey(f.par);
    f.c1 = new_TLweSample(f.par);
    f.c2 = new_TLweSample(f.par);
    for (int i = 0; i <= PK; i++)
        for (int j = 0; j < PN; j++) {
            f.a1[i][j] = nondet_u32(); f.a2[i][j] = nondet_u32();
            f.c1->a[i].coefsT[j] = (Torus32) f.a1[i][j]; f.c2->a[i].coefsT[j] = (Torus32) f.a2[i][j];
        }
    for (int i = 0; i < PK; i++)
        for (int j = 0; j < PN; j++) { f.s[i][j] = keyword(); f.key->key[i].coefs[j] = (int32_t) f.s[i][j]; }
    f.c1->current_variance = 0.; f.c2->current_variance = 0.;
}
static void t_free(TFix &f) { delete_TLweSample(f.c2); delete_TLweSample(f.c1); delete_TLweKey(f.key); delete_TLweParams(f.par); }
/* r = a (*) b in Z/2^32[X]/(X^N+1) */
static void o_ringmul(uint32_t *r, const uint32_t *a, const uint32_t *b) {
    for (int i = 0; i < PN; i++) {
        uint32_t acc = 0;
        for (int j = 0; j < PN; j++) {
            int k = i - j;
            if (k >= 0) acc += a[j] * b[k]; else acc -= a[j] * b[k + PN];
        }
        r[i] = acc;
    }
}
static void o_tphase(uint32_t *ph, const uint32_t a[PK + 1][PN], const uint32_t s[PK][PN]) {
    for (int j = 0; j < PN; j++) ph[j] = a[PK][j];
    for (int i = 0; i < PK; i++) {
        uint32_t t[PN];
        o_ringmul(t, s[i], a[i]);
        for (int j = 0; j < PN; j++) ph[j] -= t[j];
    }
}
static void t_read(uint32_t out[PK + 1][PN], const TLweSample *c) {
    for (int i = 0; i <= PK; i++) for (int j = 0; j < PN; j++) out[i][j] = (uint32_t) c->a[i].coefsT[j];
}

#define TLWE_OP_HARNESS(NAME, PRE, CALL, EXPECT_J, MSG)                                                       \
    HARNESS(NAME) {                                                                                          \
        TFix f; t_setup(f);                                                                                  \
        uint32_t p = nondet_u32(); (void) p;                                                                 \
        uint32_t ph1[PN], ph2[PN], pho[PN], out[PK + 1][PN];                                                 \
        o_tphase(ph1, f.a1, f.s); o_tphase(ph2, f.a2, f.s);                                                  \
        PRE;                                                                                                 \
        CALL;                                                                                                \
        t_read(out, f.c1);                                                                                   \
        o_tphase(pho, out, f.s);                                                                             \
        for (int j = 0; j < PN; j++) {                                                                       \
            symx_observe(pho[j]);                                                                            \
            CHECK(pho[j] == (uint32_t) (EXPECT_J) + CANARY, MSG);                                            \
        }                                                                                                    \
        for (int i = 0; i <= PK; i++) for (int j = 0; j < PN; j++)                                           \
            CHECK((uint32_t) f.c2->a[i].coefsT[j] == f.a2[i][j], MSG " (operand unchanged)");                \
        CHECK(f.c1->b == f.c1->a + PK, MSG " (b aliases a[k])");                                             \
        t_free(f);                                                                                           \
        symx_witness();                                                                                      \
    }

TLWE_OP_HARNESS(h_tlwe_addto, , tLweAddTo(f.c1, f.c2, f.par), ph1[j] + ph2[j], "C14 tLweAddTo phase")
TLWE_OP_HARNESS(h_tlwe_subto, , tLweSubTo(f.c1, f.c2, f.par), ph1[j] - ph2[j], "C14 tLweSubTo phase")
TLWE_OP_HARNESS(h_tlwe_addmulto, , tLweAddMulTo(f.c1, (int32_t) p, f.c2, f.par), ph1[j] + p * ph2[j], "C14 tLweAddMulTo phase")
TLWE_OP_HARNESS(h_tlwe_submulto, , tLweSubMulTo(f.c1, (int32_t) p, f.c2, f.par), ph1[j] - p * ph2[j], "C14 tLweSubMulTo phase")
TLWE_OP_HARNESS(h_tlwe_copy, , tLweCopy(f.c1, f.c2, f.par), ph2[j], "C14 tLweCopy phase")
TLWE_OP_HARNESS(h_tlwe_clear, , tLweClear(f.c1, f.par), 0u, "C14 tLweClear phase")
TLWE_OP_HARNESS(h_tlwe_trivialT, , tLweNoiselessTrivialT(f.c1, (Torus32) p, f.par), (j == 0 ? p : 0u), "C14 tLweNoiselessTrivialT phase")
TLWE_OP_HARNESS(h_tlwe_addtto, , tLweAddTTo(f.c1, PK, (Torus32) p, f.par), ph1[j] + (j == 0 ? p : 0u), "C14 tLweAddTTo(b) phase")

/* trivial sample of a polynomial message */
HARNESS(h_tlwe_trivial) {
    TFix f; t_setup(f);
    TorusPolynomial *mu = new_TorusPolynomial(PN);
    uint32_t m[PN], out[PK + 1][PN], pho[PN];
    for (int j = 0; j < PN; j++) { m[j] = nondet_u32(); mu->coefsT[j] = (Torus32) m[j]; }
    tLweNoiselessTrivial(f.c1, mu, f.par);
    t_read(out, f.c1);
    o_tphase(pho, out, f.s);
    for (int j = 0; j < PN; j++) CHECK(pho[j] == m[j] + CANARY, "C14 tLweNoiselessTrivial phase under any key");
    delete_TorusPolynomial(mu);
    t_free(f);
    symx_witness();
}

/* result += q (*) sample for an integer polynomial q (over the ideal ring back-end), and result += q*(0,x) */
HARNESS(h_tlwe_addmulrto) {
    TFix f; t_setup(f);
    IntPolynomial *q = new_IntPolynomial(PN);
    uint32_t qq[PN], ph1[PN], ph2[PN], pho[PN], out[PK + 1][PN], t[PN];
    for (int j = 0; j < PN; j++) { qq[j] = nondet_u32(); q->coefs[j] = (int32_t) qq[j]; }
    o_tphase(ph1, f.a1, f.s); o_tphase(ph2, f.a2, f.s);
    tLweAddMulRTo(f.c1, q, f.c2, f.par);
    t_read(out, f.c1);
    o_tphase(pho, out, f.s);
    o_ringmul(t, qq, ph2);
    for (int j = 0; j < PN; j++) { symx_observe(pho[j]); CHECK(pho[j] == ph1[j] + t[j] + CANARY, "C14 tLweAddMulRTo phase = ph1 + q*ph2"); }
    delete_IntPolynomial(q);
    t_free(f);
    symx_witness();
}
HARNESS(h_tlwe_addrtto) {
    TFix f; t_setup(f);
    IntPolynomial *q = new_IntPolynomial(PN);
    uint32_t qq[PN], ph1[PN], pho[PN], out[PK + 1][PN];
    uint32_t x = nondet_u32();
    for (int j = 0; j < PN; j++) { qq[j] = nondet_u32(); q->coefs[j] = (int32_t) qq[j]; }
    o_tphase(ph1, f.a1, f.s);
    tLweAddRTTo(f.c1, PK, q, (Torus32) x, f.par);
    t_read(out, f.c1);
    o_tphase(pho, out, f.s);
    for (int j = 0; j < PN; j++) CHECK(pho[j] == ph1[j] + qq[j] * x + CANARY, "C14 tLweAddRTTo(b) phase = ph1 + q*x");
    delete_IntPolynomial(q);
    t_free(f);
    symx_witness();
}
/* result = (X^a - 1) * sample.
   coordinates: a symbolic over [0,2N), every polynomial of the sample (mask and body) is rotated;
   phase: a is the per-query constant AFIX (a query that mixes a symbolic rotation index with ring products
   finishes on no back-end - DESIGN.md section 4, query-shaping rule) */
static void o_rot(uint32_t *rot, uint32_t a, const uint32_t *in) {
    for (uint32_t i = 0; i < PN; i++) {
        uint32_t k = i + a, qd = k / PN, idx = k % PN;
        rot[idx] = (qd & 1) ? 0u - in[i] : in[i];
    }
}
HARNESS(h_tlwe_mulbyxaiminusone_coord) {
    TFix f; t_setup(f);
    uint32_t a = nondet_u32();
    ASSUME(a < 2 * PN);
    uint32_t rot[PN];
    tLweMulByXaiMinusOne(f.c1, (int32_t) a, f.c2, f.par);
    for (int i = 0; i <= PK; i++) {
        o_rot(rot, a, f.a2[i]);
        for (int j = 0; j < PN; j++) {
            symx_observe((uint32_t) f.c1->a[i].coefsT[j]);
            CHECK((uint32_t) f.c1->a[i].coefsT[j] == rot[j] - f.a2[i][j] + CANARY, "C14 tLweMulByXaiMinusOne: polynomial i is (X^a-1)*sample.a[i]");
            CHECK((uint32_t) f.c2->a[i].coefsT[j] == f.a2[i][j], "C14 tLweMulByXaiMinusOne leaves the operand unchanged");
        }
    }
    t_free(f);
    symx_witness();
}
#ifndef AFIX
#define AFIX 1
#endif
HARNESS(h_tlwe_mulbyxaiminusone) {
    TFix f; t_setup(f);
    const uint32_t a = AFIX;
    uint32_t ph2[PN], pho[PN], out[PK + 1][PN], rot[PN];
    o_tphase(ph2, f.a2, f.s);
    tLweMulByXaiMinusOne(f.c1, (int32_t) a, f.c2, f.par);
    t_read(out, f.c1);
    o_tphase(pho, out, f.s);
    o_rot(rot, a, ph2);
    for (int j = 0; j < PN; j++) CHECK(pho[j] == rot[j] - ph2[j] + CANARY, "C14 tLweMulByXaiMinusOne phase = (X^a-1)*phase");
    t_free(f);
    symx_witness();
}
/* the library's own tLwePhase (through the ring back-end) agrees with the oracle phase */
HARNESS(h_tlwe_phase) {
    TFix f; t_setup(f);
    TorusPolynomial *ph = new_TorusPolynomial(PN);
    uint32_t o[PN];
    o_tphase(o, f.a1, f.s);
    tLwePhase(ph, f.c1, f.key);
    for (int j = 0; j < PN; j++) { symx_observe((uint32_t) ph->coefsT[j]); CHECK((uint32_t) ph->coefsT[j] == o[j] + CANARY, "C14 tLwePhase = b - sum a_i s_i"); }
    delete_TorusPolynomial(ph);
    t_free(f);
    symx_witness();
}

/* extraction.
   coordinates (index j symbolic over [0,N)): a'[i*N+t] = a_i[j-t] for t<=j, -a_i[N+j-t] for t>j; b' = b[j]; key concatenated.
   phase (j = per-query constant JFIX, every j enumerated): lwePhase(extract_j(c), extractKey(s)) == coefficient j of the TLWE phase */
HARNESS(h_extract_coord) {
    TFix f; t_setup(f);
    LweParams *lp = new_LweParams(PK * PN, 0.0, 1.0);
    LweKey *lk = new_LweKey(lp);
    LweSample *ls = new_LweSample(lp);
    uint32_t j = nondet_u32();
    ASSUME(j < PN);
    tLweExtractKey(lk, f.key);
    for (int i = 0; i < PK; i++) for (int t = 0; t < PN; t++) CHECK((uint32_t) lk->key[i * PN + t] == f.s[i][t], "C14 tLweExtractKey concatenates the key polynomials");
    tLweExtractLweSampleIndex(ls, f.c1, (int32_t) j, lp, f.par);
    for (uint32_t i = 0; i < PK; i++)
        for (uint32_t t = 0; t < PN; t++) {
            uint32_t want = 0;
            for (uint32_t u = 0; u < PN; u++) {      /* select without symbolic indexing */
                if (t <= j && u == j - t) want = f.a1[i][u];
                if (t > j && u == PN + j - t) want = 0u - f.a1[i][u];
            }
            symx_observe((uint32_t) ls->a[i * PN + t]);
            CHECK((uint32_t) ls->a[i * PN + t] == want + CANARY, "C14 extraction: mask coordinate = reversed, sign-flipped ring coefficient");
        }
    uint32_t wb = 0;
    for (uint32_t u = 0; u < PN; u++) if (u == j) wb = f.a1[PK][u];
    CHECK((uint32_t) ls->b == wb, "C14 extraction: body = coefficient j of b");
    if (j == 0) {
        LweSample *l0 = new_LweSample(lp);
        tLweExtractLweSample(l0, f.c1, lp, f.par);
        for (int t = 0; t < PK * PN; t++) CHECK(l0->a[t] == ls->a[t], "C14 tLweExtractLweSample = index 0");
        CHECK(l0->b == ls->b, "C14 tLweExtractLweSample = index 0 (body)");
        delete_LweSample(l0);
    }
    for (int i = 0; i <= PK; i++) for (int t = 0; t < PN; t++) CHECK((uint32_t) f.c1->a[i].coefsT[t] == f.a1[i][t], "C14 extraction leaves the TLWE sample unchanged");
    delete_LweSample(ls); delete_LweKey(lk); delete_LweParams(lp);
    t_free(f);
    symx_witness();
}
#ifndef JFIX
#define JFIX 0
#endif
HARNESS(h_extract) {
    TFix f; t_setup(f);
    LweParams *lp = new_LweParams(PK * PN, 0.0, 1.0);
    LweKey *lk = new_LweKey(lp);
    LweSample *ls = new_LweSample(lp);
    uint32_t ph[PN];
    o_tphase(ph, f.a1, f.s);
    tLweExtractKey(lk, f.key);
    tLweExtractLweSampleIndex(ls, f.c1, JFIX, lp, f.par);
    uint32_t got = (uint32_t) lwePhase(ls, lk);
    symx_observe(got);
    CHECK(got == ph[JFIX] + CANARY, "C14 phase of extracted sample j = coefficient j of the TLWE phase");
    delete_LweSample(ls); delete_LweKey(lk); delete_LweParams(lp);
    t_free(f);
    symx_witness();
}
