/* C04 -- bootstrapping maps the rounded input phase through the test polynomial
 * whole chain, no stub inside: modulus switch -> X^(2N-barb)*v -> blind rotation (CMux steps with the real external
 * product and gadget decomposition) -> coefficient-0 extraction (-> key switch); ring back-end = M-FFT-ideal.
 * bootstrapping key: mask-free, noiseless TGSW encryptions of symbolic key bits (built with the real tGswClear/tGswAddMuIntH) */
#include "symx.h"
#include "tfhe.h"
extern "C" void symx_observe(uint64_t);

#ifndef PN
#define PN 4
#endif
#ifndef PK
#define PK 1
#endif
#ifndef PLN          /* LWE dimension n (may exceed N) */
#define PLN 1
#endif
#ifndef PL
#define PL 2
#endif
#ifndef PBGBIT
#define PBGBIT 8
#endif
#ifndef KT
#define KT 2
#endif
#ifndef KBB
#define KBB 1
#endif
#ifndef VARIANT      /* 0 woKS_FFT, 1 bootstrap_FFT, 2 woKS (coefficient domain), 3 bootstrap (coefficient domain) */
#define VARIANT 0
#endif

struct Fix {
    LweParams *lp; TLweParams *tp; TGswParams *gp;
    LweBootstrappingKey *bk; LweBootstrappingKeyFFT *bkFFT;
    uint32_t s[PLN];
};

static void setup(Fix &f, bool fft) {
    f.lp = new_LweParams(PLN, 0.0, 1.0);
    f.tp = new_TLweParams(PN, PK, 0.0, 1.0);
    f.gp = new_TGswParams(PL, PBGBIT, f.tp);
    f.bk = new_LweBootstrappingKey(KT, KBB, f.lp, f.gp);
    for (int i = 0; i < PLN; i++) {
        f.s[i] = nondet_u32();
        ASSUME(f.s[i] <= 1);
        tGswClear(&f.bk->bk[i], f.gp);
        tGswAddMuIntH(&f.bk->bk[i], (int32_t) f.s[i], f.gp);
    }
    /* noiseless, mask-free key-switching key for an all-zero extracted key: every row is the trivial zero sample */
    const int R = PK * PN * KT * (1 << KBB);
    for (int r = 0; r < R; r++) lweClear(&f.bk->ks->ks0_raw[r], f.lp);
    f.bkFFT = fft ? new_LweBootstrappingKeyFFT(f.bk) : 0;
}
static void teardown(Fix &f) {
    if (f.bkFFT) delete_LweBootstrappingKeyFFT(f.bkFFT);
    delete_LweBootstrappingKey(f.bk);
    delete_TGswParams(f.gp); delete_TLweParams(f.tp); delete_LweParams(f.lp);
}

/* library-independent rounding to Z_2N (2N is a power of two): nearest, exact ties excluded by the caller */
static inline uint32_t o_round2N(uint32_t x) { return (uint32_t) ((((uint64_t) x * (2 * PN)) + ((uint64_t) 1 << 31)) >> 32) % (2 * PN); }
static inline bool o_tie(uint32_t x) { return (uint32_t) ((uint64_t) x * (2 * PN)) == 0x80000000u; }

static void check_close(uint32_t got, uint32_t want, int nsteps, const char *unused) {
    int64_t d = (int64_t) (int32_t) (got - want);
    if (PL * PBGBIT == 32) { CHECK(d == 0, "C04 result phase equals the selected test-polynomial coefficient (exact layout)"); return; }
    int64_t E = (int64_t) 1 << (32 - PL * PBGBIT);
    CHECK(d > -(int64_t) nsteps * E - 1 + CANARY * ((int64_t) nsteps * E + 1) && d < (int64_t) nsteps * E + 1,
          "C04 result phase = +-mu / v_p within one gadget truncation per CMux step");
}

/* sign bootstrapping: x, mu and the key are symbolic */
HARNESS(h_bootstrap) {
    Fix f; setup(f, VARIANT < 2);
    LweSample *x = new_LweSample(f.lp);
    uint32_t xa[PLN], xb, mu = nondet_u32();
    for (int i = 0; i < PLN; i++) { xa[i] = nondet_u32(); ASSUME(!o_tie(xa[i])); x->a[i] = (Torus32) xa[i]; }
    xb = nondet_u32(); ASSUME(!o_tie(xb)); x->b = (Torus32) xb;
    x->current_variance = 0.;
#if VARIANT == 0 || VARIANT == 2
    LweSample *res = new_LweSample(&f.tp->extracted_lweparams);
    const int rn = PK * PN;
#else
    LweSample *res = new_LweSample(f.lp);
    const int rn = PLN;
#endif
#if VARIANT == 0
    tfhe_bootstrap_woKS_FFT(res, f.bkFFT, (Torus32) mu, x);
#elif VARIANT == 1
    tfhe_bootstrap_FFT(res, f.bkFFT, (Torus32) mu, x);
#elif VARIANT == 2
    tfhe_bootstrap_woKS(res, f.bk, (Torus32) mu, x);
#else
    tfhe_bootstrap(res, f.bk, (Torus32) mu, x);
#endif
    uint32_t p = o_round2N(xb);
    for (int i = 0; i < PLN; i++) if (f.s[i]) p = (p + 2 * PN - o_round2N(xa[i])) % (2 * PN);
    uint32_t want = p < PN ? mu : 0u - mu;
    symx_observe((uint32_t) res->b);
    for (int i = 0; i < rn; i++) CHECK(res->a[i] == 0, "C04 mask-free key gives a mask-free result (phase = body under every key)");
    check_close((uint32_t) res->b, want, PLN, "");
    for (int i = 0; i < PLN; i++) CHECK((uint32_t) x->a[i] == xa[i], "C04 input sample unchanged");
    CHECK((uint32_t) x->b == xb, "C04 input sample unchanged (body)");
    delete_LweSample(res); delete_LweSample(x);
    teardown(f);
    symx_witness();
}

/* blind rotate and extract with an arbitrary test polynomial and arbitrary exponents in [0,2N) */
#ifndef BRFFT
#define BRFFT 1
#endif
HARNESS(h_blindrotate_extract) {
    Fix f; setup(f, BRFFT);
    TorusPolynomial *v = new_TorusPolynomial(PN);
    uint32_t vv[PN];
    for (int j = 0; j < PN; j++) { vv[j] = nondet_u32(); v->coefsT[j] = (Torus32) vv[j]; }
    int32_t bara[PLN];
    uint32_t barb = nondet_u32();
    ASSUME(barb < 2 * PN);
    for (int i = 0; i < PLN; i++) { uint32_t a = nondet_u32(); ASSUME(a < 2 * PN); bara[i] = (int32_t) a; }
    LweSample *res = new_LweSample(&f.tp->extracted_lweparams);
#if BRFFT
    tfhe_blindRotateAndExtract_FFT(res, v, f.bkFFT->bkFFT, (int32_t) barb, bara, PLN, f.gp);
#else
    tfhe_blindRotateAndExtract(res, v, f.bk->bk, (int32_t) barb, bara, PLN, f.gp);
#endif
    uint32_t p = barb;
    for (int i = 0; i < PLN; i++) if (f.s[i]) p = (p + 2 * PN - (uint32_t) bara[i]) % (2 * PN);
    uint32_t want = 0;
    for (uint32_t j = 0; j < PN; j++) { if (p == j) want = vv[j]; if (p == j + PN) want = 0u - vv[j]; }
    symx_observe((uint32_t) res->b);
    for (int i = 0; i < PK * PN; i++) CHECK(res->a[i] == 0, "C04 mask-free key gives a mask-free result");
    check_close((uint32_t) res->b, want, PLN, "");
    for (int j = 0; j < PN; j++) CHECK((uint32_t) v->coefsT[j] == vv[j], "C04 test polynomial unchanged");
    delete_LweSample(res); delete_TorusPolynomial(v);
    teardown(f);
    symx_witness();
}
