/* C03 -- decryption inverts encryption (lwe-functions.cpp, tlwe-functions.cpp, tgsw-functions.cpp, tfhe_gate_bootstrapping.cpp)
 * split so that floating point, mask cancellation and rounding never meet in one query (DESIGN.md section 4) */
#include "symx.h"
#include "tfhe.h"
#include "rng_model.h"
extern "C" void symx_observe(uint64_t);

#ifndef PLN
#define PLN 3
#endif
#ifndef PN
#define PN 2
#endif
#ifndef PK
#define PK 1
#endif
#ifndef MSIZE
#define MSIZE 8
#endif

/* (a) the sampler: |gaussian32(m,sigma) - m| <= R*sigma*2^32 + 1 for every draw within R sigma (real IEEE doubles) */
HARNESS(h_gaussian32) {
    symx_run_ctors();
    uint32_t m = nondet_u32();
    double sigma = nondet_f64();
    ASSUME(sigma >= 9.313225746154785e-10 && sigma <= 0.03125);   /* 2^-30 .. 2^-5 */
    rng_n = 0;
    uint32_t g = (uint32_t) gaussian32((Torus32) m, sigma);
    CHECK(rng_n == 1 && rng_kind[0] == 1 && rng_sigma[0] == sigma && rng_mean[0] == 0.0 && !rng_bad_engine, "C03/C07 gaussian32 draws one gaussian of the requested sigma from the library generator [sampling idiom]");
    int64_t d = (int64_t) (int32_t) (g - m);
    double lim = rng_R * sigma * 4294967296.0;
    symx_observe(g);
    CHECK((double) d <= lim + 1.0 - CANARY * lim && (double) d >= -lim - 1.0, "C03 |gaussian32(m,sigma) - m| <= R sigma 2^32 + 1");
    CHECK(d == (int64_t) (int32_t) (uint32_t) dtot32(rng_dval[0]), "C03 gaussian32(m,sigma) = m + dtot32(draw)");
    symx_witness();
}

/* (b) LWE: phase(encrypt(m)) == m + e exactly, e the torus image of the one gaussian draw; masks are fresh uniform draws */
#ifndef EXTNOISE
#define EXTNOISE 0
#endif
HARNESS(h_lwe_encrypt_phase) {
    symx_run_ctors();
    LweParams *lp = new_LweParams(PLN, 0.0, 1.0);
    LweKey *key = new_LweKey(lp);
    LweSample *c = new_LweSample(lp);
    uint32_t s[PLN];
    for (int i = 0; i < PLN; i++) { s[i] = nondet_u32(); key->key[i] = (int32_t) s[i]; }
    uint32_t m = nondet_u32();
    double alpha = nondet_f64();
    ASSUME(alpha > 0.0 && alpha <= 0.25);
    rng_n = 0;
#if EXTNOISE
    double noise = nondet_f64();
    ASSUME(noise >= -0.25 && noise <= 0.25);
    lweSymEncryptWithExternalNoise(c, (Torus32) m, noise, alpha, key);
    uint32_t e = (uint32_t) dtot32(noise);
    const int first_mask = 0;
#else
    lweSymEncrypt(c, (Torus32) m, alpha, key);
    CHECK(rng_kind[0] == 1 && rng_sigma[0] == alpha, "C03/C07 lweSymEncrypt: one gaussian draw with sigma = alpha [sampling idiom]");
    uint32_t e = (uint32_t) dtot32(rng_dval[0]);
    const int first_mask = 1;
#endif
    CHECK(rng_n == first_mask + PLN && !rng_bad_engine, "C03/C07 lweSymEncrypt: n uniform mask draws from the library generator");
    for (int i = 0; i < PLN; i++) {
        CHECK(rng_kind[first_mask + i] == 0 && rng_lo[first_mask + i] == INT32_MIN && rng_hi[first_mask + i] == INT32_MAX, "C03/C07 mask coefficient: full-range uniform draw");
        CHECK(c->a[i] == rng_ival[first_mask + i], "C03/C07 mask coefficient i is the i-th draw");
    }
    uint32_t ph = (uint32_t) lwePhase(c, key);
    symx_observe(ph);
    CHECK(ph == m + e + CANARY, "C03 lwePhase(lweSymEncrypt(m)) == m + e exactly, for every key");
    CHECK(c->current_variance == alpha * alpha, "C03 fresh sample variance annotation alpha^2");
    delete_LweSample(c); delete_LweKey(key); delete_LweParams(lp);
    symx_witness();
}

/* (c) the rounding step: approxPhase(mu + e, M) == mu for mu the encoding of any m in [0,M) and any |e| < 2^31/M - 1 */
HARNESS(h_decode_margin) {
    int32_t m = nondet_i32();
    ASSUME(m >= 0 && m < MSIZE);
    int32_t e = nondet_i32();
    const int64_t lim = ((int64_t) 1 << 31) / MSIZE - 1 + CANARY * 3;
    ASSUME((int64_t) e > -lim && (int64_t) e < lim);
    Torus32 mu = modSwitchToTorus32(m, MSIZE);
    Torus32 r = approxPhase((Torus32) ((uint32_t) mu + (uint32_t) e), MSIZE);
    symx_observe((uint32_t) r);
    CHECK(r == mu, "C03 approxPhase(mu + e, Msize) == mu whenever |e| < 2^31/Msize - 1");
    CHECK(modSwitchFromTorus32((Torus32) ((uint32_t) mu + (uint32_t) e), MSIZE) == m, "C03 modSwitchFromTorus32(mu + e, Msize) == m");
    symx_witness();
}

/* (d) lweSymDecrypt = approxPhase o lwePhase; trivial samples decrypt under every key */
HARNESS(h_lwe_decrypt) {
    LweParams *lp = new_LweParams(PLN, 0.0, 1.0);
    LweKey *key = new_LweKey(lp);
    LweSample *c = new_LweSample(lp);
    for (int i = 0; i < PLN; i++) { key->key[i] = (int32_t) nondet_u32(); c->a[i] = (Torus32) nondet_u32(); }
    c->b = (Torus32) nondet_u32();
    Torus32 d = lweSymDecrypt(c, key, MSIZE);
    CHECK(d == approxPhase(lwePhase(c, key), MSIZE), "C03 lweSymDecrypt = approxPhase(lwePhase)");
    int32_t m = nondet_i32();
    ASSUME(m >= 0 && m < MSIZE);
    Torus32 mu = modSwitchToTorus32(m, MSIZE);
    lweNoiselessTrivial(c, mu, lp);
    symx_observe((uint32_t) lweSymDecrypt(c, key, MSIZE));
    CHECK(lweSymDecrypt(c, key, MSIZE) == mu + CANARY, "C03 a noiseless trivial LWE sample decrypts to its message under every key");
    delete_LweSample(c); delete_LweKey(key); delete_LweParams(lp);
    symx_witness();
}

/* (e) TLWE over the exact ring back-end: phase(encrypt(msg)) == msg + e coefficient-wise; decrypt = approxPhase o phase */
#ifndef TVAR   /* 0 tLweSymEncrypt (polynomial message), 1 tLweSymEncryptT (constant message) */
#define TVAR 0
#endif
HARNESS(h_tlwe_encrypt_phase) {
    symx_run_ctors();
    TLweParams *tp = new_TLweParams(PN, PK, 0.0, 1.0);
    TLweKey *key = new_TLweKey(tp);
    TLweSample *c = new_TLweSample(tp);
    TorusPolynomial *msg = new_TorusPolynomial(PN), *ph = new_TorusPolynomial(PN), *dec = new_TorusPolynomial(PN);
    uint32_t mm[PN];
    for (int i = 0; i < PK; i++) for (int j = 0; j < PN; j++) { uint32_t b = nondet_u32(); ASSUME(b <= 1); key->key[i].coefs[j] = (int32_t) b; }
    for (int j = 0; j < PN; j++) { mm[j] = nondet_u32(); msg->coefsT[j] = (Torus32) mm[j]; }
    double alpha = nondet_f64();
    ASSUME(alpha > 0.0 && alpha <= 0.25);
    rng_n = 0;
#if TVAR == 0
    tLweSymEncrypt(c, msg, alpha, key);
#else
    tLweSymEncryptT(c, (Torus32) mm[0], alpha, key);
#endif
    CHECK(rng_n == PN + PK * PN && !rng_bad_engine, "C03/C07 tLweSymEncrypt: N gaussian draws then k*N uniform draws");
    tLwePhase(ph, c, key);
    for (int j = 0; j < PN; j++) {
        CHECK(rng_kind[j] == 1 && rng_sigma[j] == alpha, "C03/C07 TLWE noise coefficient: gaussian with sigma = alpha [sampling idiom]");
        uint32_t want = (uint32_t) dtot32(rng_dval[j]) + ((TVAR == 0 || j == 0) ? mm[j] : 0u);
        symx_observe((uint32_t) ph->coefsT[j]);
        CHECK((uint32_t) ph->coefsT[j] == want + CANARY, "C03 tLwePhase(tLweSymEncrypt(msg)) == msg + e coefficient-wise");
    }
    for (int i = 0; i < PK; i++) for (int j = 0; j < PN; j++)
        CHECK(rng_kind[PN + i * PN + j] == 0 && c->a[i].coefsT[j] == rng_ival[PN + i * PN + j], "C03/C07 TLWE mask coefficient is its own uniform draw");
    CHECK(c->current_variance == alpha * alpha, "C03 TLWE fresh variance annotation");
    tLweSymDecrypt(dec, c, key, MSIZE);
    for (int j = 0; j < PN; j++) CHECK(dec->coefsT[j] == approxPhase(ph->coefsT[j], MSIZE), "C03 tLweSymDecrypt = approxPhase(tLwePhase) coefficient-wise");
    CHECK(tLweSymDecryptT(c, key, MSIZE) == approxPhase(ph->coefsT[0], MSIZE), "C03 tLweSymDecryptT = approxPhase of coefficient 0");
    delete_TorusPolynomial(dec); delete_TorusPolynomial(ph); delete_TorusPolynomial(msg);
    delete_TLweSample(c); delete_TLweKey(key); delete_TLweParams(tp);
    symx_witness();
}

/* (f) TGSW: decryption of a fresh encryption of a small integer polynomial with bounded row noise (noise injected directly:
       rows = noiseless trivial + per-coefficient body noise, which is what encryption under a zero... any key gives in phase) */
#ifndef PL
#define PL 2
#endif
#ifndef PBGBIT
#define PBGBIT 4
#endif
HARNESS(h_tgsw_decrypt) {
    TLweParams *tp = new_TLweParams(PN, PK, 0.0, 1.0);
    TGswParams *gp = new_TGswParams(PL, PBGBIT, tp);
    TGswKey *key = new_TGswKey(gp);
    for (int i = 0; i < PK; i++) for (int j = 0; j < PN; j++) { uint32_t b = nondet_u32(); ASSUME(b <= 1); key->key[i].coefs[j] = (int32_t) b; }
    TGswSample *g = new_TGswSample(gp);
    IntPolynomial *m = new_IntPolynomial(PN), *out = new_IntPolynomial(PN);
    int32_t mm[PN];
    for (int j = 0; j < PN; j++) { mm[j] = nondet_i32(); ASSUME(mm[j] >= 0 && mm[j] < MSIZE); m->coefs[j] = mm[j]; }
    tGswNoiselessTrivial(g, m, gp);
    /* bounded phase noise on every row of the last block: |e| < 2^32 / (2 Msize l Bg) - 1 */
    const int64_t lim = (((int64_t) 1 << 31) / MSIZE / PL) >> PBGBIT;
    for (int q = 0; q < PL; q++) for (int j = 0; j < PN; j++) {
        int32_t e = nondet_i32();
        ASSUME((int64_t) e > -lim + 1 - CANARY * 64 * lim && (int64_t) e < lim - 1 + CANARY * 64 * lim);
        g->bloc_sample[PK][q].b->coefsT[j] += e;
    }
    tGswSymDecrypt(out, g, key, MSIZE);
    for (int j = 0; j < PN; j++) { symx_observe((uint32_t) out->coefs[j]); CHECK(out->coefs[j] == mm[j], "C03 tGswSymDecrypt returns the message polynomial (Msize <= Bg, bounded row noise)"); }
    delete_IntPolynomial(out); delete_IntPolynomial(m); delete_TGswSample(g); delete_TGswKey(key); delete_TGswParams(gp); delete_TLweParams(tp);
    symx_witness();
}

/* (g) gate API: bootsSymDecrypt(bootsSymEncrypt(bit)) == bit for both bits, noise within R sigma < 1/8 */
#include "tfhe_gate_bootstrapping_structures.h"
HARNESS(h_gate_roundtrip) {
    symx_run_ctors();
    const double alpha = 0.0078125;    /* 2^-7: 10 sigma = 0.078 < 1/8 */
    LweParams *lp = new_LweParams(PLN, alpha, 1.0);
    TLweParams *tp = new_TLweParams(2, 1, 0.0, 1.0);
    TGswParams *gp = new_TGswParams(2, 8, tp);
    TFheGateBootstrappingParameterSet *ps = new TFheGateBootstrappingParameterSet(2, 1, lp, gp);
    LweKey *lk = new_LweKey(lp);
    TGswKey *gk = new_TGswKey(gp);
    for (int i = 0; i < PLN; i++) { uint32_t b = nondet_u32(); ASSUME(b <= 1); lk->key[i] = (int32_t) b; }
    TFheGateBootstrappingSecretKeySet *sk = new TFheGateBootstrappingSecretKeySet(ps, 0, 0, lk, gk);
    LweSample *c = new_gate_bootstrapping_ciphertext(ps);
    int32_t bit = nondet_i32();
    rng_n = 0;
    bootsSymEncrypt(c, bit, sk);
    CHECK(rng_kind[0] == 1 && rng_sigma[0] == alpha, "C03/C07 fresh gate ciphertexts use the input-key noise level alpha_min [sampling idiom]");
    int32_t d = bootsSymDecrypt(c, sk);
    symx_observe((uint32_t) d);
    CHECK(d == ((bit != 0) ? 1 : 0) + CANARY, "C03 bootsSymDecrypt(bootsSymEncrypt(bit)) == bit");
    uint32_t ph = (uint32_t) lwePhase(c, lk);
    uint32_t centre = (bit != 0) ? 0x20000000u : 0xE0000000u;
    int64_t dist = (int64_t) (int32_t) (ph - centre);
    CHECK(dist > -((int64_t) 1 << 29) && dist < ((int64_t) 1 << 29), "C03 fresh gate ciphertext phase within 1/8 of +-1/8");
    symx_witness();
}
