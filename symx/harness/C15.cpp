/* C15 -- evaluation leaves inputs/keys untouched, accepts aliased output, uses no RNG */
#include "symx.h"
#include "tfhe.h"
#include "tfhe_gate_bootstrapping_structures.h"
#include "rng_model.h"
#include <random>
extern "C" void symx_observe(uint64_t);
extern std::default_random_engine generator;

#ifndef PN
#define PN 2
#endif
#ifndef PK
#define PK 1
#endif
#ifndef PLN
#define PLN 2
#endif
#ifndef PL
#define PL 2
#endif
#ifndef PBGBIT
#define PBGBIT 8
#endif
#ifndef KT
#define KT 2
#endif
#ifndef KBB
#define KBB 1
#endif
#ifndef SYMKEYS
#define SYMKEYS 1
#endif
#define KPL ((PK + 1) * PL)
#define KSROWS (PK * PN * KT * (1 << KBB))

struct IdealLagrange { int32_t N; uint32_t *c; };

/* a fully symbolic key set (every mask, body and parameter-derived table as the real constructors build them) + snapshot */
struct World {
    LweParams *lp; TLweParams *tp; TGswParams *gp;
    LweBootstrappingKey *bk; LweBootstrappingKeyFFT *bf;
};
#define SNAP_MAX 512
static uint32_t snap[SNAP_MAX];
static int snap_n;
static bool snap_mode;      /* false: record, true: compare */
static bool snap_ok;
static void S(uint32_t v) {
    if (snap_n >= SNAP_MAX) { snap_ok = false; return; }
    if (!snap_mode) snap[snap_n] = v; else if (snap[snap_n] != v) snap_ok = false;
    snap_n++;
}
static void walk_lwe(const LweSample *c, int n) { for (int i = 0; i < n; i++) S((uint32_t) c->a[i]); S((uint32_t) c->b); }
static void walk_tlwe(const TLweSample *c) { for (int i = 0; i <= PK; i++) for (int j = 0; j < PN; j++) S((uint32_t) c->a[i].coefsT[j]); }
static void walk_world(const World &w) {
    S((uint32_t) w.lp->n); S((uint32_t) w.tp->N); S((uint32_t) w.tp->k); S((uint32_t) w.tp->extracted_lweparams.n);
    S((uint32_t) w.gp->l); S((uint32_t) w.gp->Bgbit); S((uint32_t) w.gp->Bg); S((uint32_t) w.gp->halfBg); S(w.gp->maskMod); S((uint32_t) w.gp->kpl); S(w.gp->offset);
    for (int i = 0; i < PL; i++) S((uint32_t) w.gp->h[i]);
    for (int i = 0; i < PLN; i++) for (int p = 0; p < KPL; p++) walk_tlwe(&w.bk->bk[i].all_sample[p]);
    for (int r = 0; r < KSROWS; r++) walk_lwe(&w.bk->ks->ks0_raw[r], PLN);
    if (w.bf) {
        for (int r = 0; r < KSROWS; r++) walk_lwe(&w.bf->ks->ks0_raw[r], PLN);
        for (int i = 0; i < PLN; i++) for (int p = 0; p < KPL; p++) for (int c = 0; c <= PK; c++) {
            const IdealLagrange *il = (const IdealLagrange *) w.bf->bkFFT[i].all_samples[p].a[c].data;
            for (int j = 0; j < PN; j++) S(il->c[j]);
        }
    }
}
/* key material: symbolic (SYMKEYS, for the single-step entry points) or concrete pseudo-random words (for the whole
   bootstrapping chain, where symbolic masks make the formula intractable: 900 s, no answer). Whether an input object is
   written does not depend on the values it holds; the input sample, exponents and test polynomial - which steer the
   control flow (zero-exponent skipping, barb == 0, buffer parity) - stay symbolic in every query */
static uint32_t lcg_state = 12345u;
static uint32_t keyword32() {
#if SYMKEYS
    return nondet_u32();
#else
    lcg_state = lcg_state * 1664525u + 1013904223u;
    return lcg_state;
#endif
}
static void mk_world(World &w, bool fft) {
    w.lp = new_LweParams(PLN, 0.0, 1.0);
    w.tp = new_TLweParams(PN, PK, 0.0, 1.0);
    w.gp = new_TGswParams(PL, PBGBIT, w.tp);
    w.bk = new_LweBootstrappingKey(KT, KBB, w.lp, w.gp);
    for (int i = 0; i < PLN; i++) for (int p = 0; p < KPL; p++) for (int c = 0; c <= PK; c++) for (int j = 0; j < PN; j++)
        w.bk->bk[i].all_sample[p].a[c].coefsT[j] = (Torus32) keyword32();
    for (int r = 0; r < KSROWS; r++) { for (int q = 0; q < PLN; q++) w.bk->ks->ks0_raw[r].a[q] = (Torus32) keyword32(); w.bk->ks->ks0_raw[r].b = (Torus32) keyword32(); }
    w.bf = fft ? new_LweBootstrappingKeyFFT(w.bk) : 0;
}
static uint64_t gen_state() { uint64_t s; __builtin_memcpy(&s, &generator, sizeof s); return s; }

#define BEGIN_SNAPSHOT(extra) snap_n = 0; snap_mode = false; snap_ok = true; walk_world(w); extra; uint64_t g0 = gen_state(); rng_n = 0;
#define END_SNAPSHOT(extra, what)                                                                                     \
    snap_n = 0; snap_mode = true; walk_world(w); extra;                                                               \
    CHECK(snap_ok ^ (CANARY != 0), "C15 " what ": every input object (samples, test polynomial, keys, parameters) is bit-identical after the call"); \
    CHECK(gen_state() == g0 && rng_n == 0 && !rng_bad_engine, "C15 " what ": the library random generator is neither used nor modified");

#ifndef EVFN
#define EVFN 0
#endif
HARNESS(h_inputs_untouched) {
    symx_run_ctors();
    World w;
#if EVFN == 0       /* tfhe_bootstrap_FFT (includes woKS_FFT, blind rotation, extraction, key switch) */
    mk_world(w, true);
    LweSample *x = new_LweSample(w.lp), *res = new_LweSample(w.lp);
    for (int i = 0; i < PLN; i++) x->a[i] = (Torus32) nondet_u32();
    x->b = (Torus32) nondet_u32();
    uint32_t mu = nondet_u32();
    BEGIN_SNAPSHOT(walk_lwe(x, PLN))
    tfhe_bootstrap_FFT(res, w.bf, (Torus32) mu, x);
    END_SNAPSHOT(walk_lwe(x, PLN), "tfhe_bootstrap_FFT")
#elif EVFN == 1     /* tfhe_bootstrap (coefficient domain) */
    mk_world(w, false);
    LweSample *x = new_LweSample(w.lp), *res = new_LweSample(w.lp);
    for (int i = 0; i < PLN; i++) x->a[i] = (Torus32) nondet_u32();
    x->b = (Torus32) nondet_u32();
    uint32_t mu = nondet_u32();
    BEGIN_SNAPSHOT(walk_lwe(x, PLN))
    tfhe_bootstrap(res, w.bk, (Torus32) mu, x);
    END_SNAPSHOT(walk_lwe(x, PLN), "tfhe_bootstrap")
#elif EVFN == 2     /* blind rotate and extract with an arbitrary test polynomial, FFT */
    mk_world(w, true);
    TorusPolynomial *v = new_TorusPolynomial(PN);
    for (int j = 0; j < PN; j++) v->coefsT[j] = (Torus32) nondet_u32();
    int32_t bara[PLN];
    for (int i = 0; i < PLN; i++) { uint32_t a = nondet_u32(); ASSUME(a < 2 * PN); bara[i] = (int32_t) a; }
    uint32_t barb = nondet_u32(); ASSUME(barb < 2 * PN);
    LweSample *res = new_LweSample(&w.tp->extracted_lweparams);
    BEGIN_SNAPSHOT(for (int j = 0; j < PN; j++) S((uint32_t) v->coefsT[j]); for (int i = 0; i < PLN; i++) S((uint32_t) bara[i]))
    tfhe_blindRotateAndExtract_FFT(res, v, w.bf->bkFFT, (int32_t) barb, bara, PLN, w.gp);
    END_SNAPSHOT(for (int j = 0; j < PN; j++) S((uint32_t) v->coefsT[j]); for (int i = 0; i < PLN; i++) S((uint32_t) bara[i]), "tfhe_blindRotateAndExtract_FFT")
#elif EVFN == 3     /* key switch */
    mk_world(w, false);
    LweSample *u = new_LweSample(&w.tp->extracted_lweparams), *res = new_LweSample(w.lp);
    for (int i = 0; i < PK * PN; i++) u->a[i] = (Torus32) nondet_u32();
    u->b = (Torus32) nondet_u32();
    BEGIN_SNAPSHOT(walk_lwe(u, PK * PN))
    lweKeySwitch(res, w.bk->ks, u);
    END_SNAPSHOT(walk_lwe(u, PK * PN), "lweKeySwitch")
#elif EVFN == 4     /* extraction */
    mk_world(w, false);
    TLweSample *c = new_TLweSample(w.tp);
    for (int i = 0; i <= PK; i++) for (int j = 0; j < PN; j++) c->a[i].coefsT[j] = (Torus32) nondet_u32();
    LweSample *res = new_LweSample(&w.tp->extracted_lweparams);
    uint32_t idx = nondet_u32(); ASSUME(idx < PN);
    BEGIN_SNAPSHOT(walk_tlwe(c))
    tLweExtractLweSampleIndex(res, c, (int32_t) idx, &w.tp->extracted_lweparams, w.tp);
    tLweExtractLweSample(res, c, &w.tp->extracted_lweparams, w.tp);
    END_SNAPSHOT(walk_tlwe(c), "tLweExtractLweSample(Index)")
#elif EVFN == 5     /* external products: the TGSW operand and (for tGswExternProduct) the TLWE operand */
    mk_world(w, true);
    TLweSample *acc = new_TLweSample(w.tp), *acc2 = new_TLweSample(w.tp), *out = new_TLweSample(w.tp), *b = new_TLweSample(w.tp);
    for (int i = 0; i <= PK; i++) for (int j = 0; j < PN; j++) { acc->a[i].coefsT[j] = (Torus32) nondet_u32(); acc2->a[i].coefsT[j] = acc->a[i].coefsT[j]; b->a[i].coefsT[j] = (Torus32) nondet_u32(); }
    BEGIN_SNAPSHOT(walk_tlwe(b))
    tGswExternMulToTLwe(acc, &w.bk->bk[0], w.gp);
    tGswFFTExternMulToTLwe(acc2, &w.bf->bkFFT[0], w.gp);
    tGswExternProduct(out, &w.bk->bk[PLN - 1], b, w.gp);
    END_SNAPSHOT(walk_tlwe(b), "tGswExternMulToTLwe / tGswFFTExternMulToTLwe / tGswExternProduct")
#else               /* blind rotation in place, both variants */
    mk_world(w, true);
    TLweSample *acc = new_TLweSample(w.tp), *acc2 = new_TLweSample(w.tp);
    for (int i = 0; i <= PK; i++) for (int j = 0; j < PN; j++) { acc->a[i].coefsT[j] = (Torus32) nondet_u32(); acc2->a[i].coefsT[j] = (Torus32) nondet_u32(); }
    int32_t bara[PLN];
    for (int i = 0; i < PLN; i++) { uint32_t a = nondet_u32(); ASSUME(a < 2 * PN); bara[i] = (int32_t) a; }
    BEGIN_SNAPSHOT(for (int i = 0; i < PLN; i++) S((uint32_t) bara[i]))
    tfhe_blindRotate_FFT(acc, w.bf->bkFFT, bara, PLN, w.gp);
    tfhe_blindRotate(acc2, w.bk->bk, bara, PLN, w.gp);
    END_SNAPSHOT(for (int i = 0; i < PLN; i++) S((uint32_t) bara[i]), "tfhe_blindRotate(_FFT)")
#endif
    symx_witness();
}

/* -------------------------------------------------------------- gates with the output aliasing an input */
#ifndef GATE
#define GATE 0
#endif
#ifndef ALIAS       /* 1: result = a, 2: result = b, 3: result = c (MUX), 4: a = b, 5: everything the same object */
#define ALIAS 1
#endif
/* deterministic read-everything-then-write stand-ins: the gates' own code (temporaries, order of reads and writes) is what is tested */
#if STUB_ON(stub_tfhe_bootstrap_FFT)
extern "C" void STUBNAME(tfhe_bootstrap_FFT)(LweSample *res, const LweBootstrappingKeyFFT *bk, Torus32 mu, const LweSample *x) {
    uint32_t t[PLN], b = (uint32_t) x->b;
    for (int i = 0; i < PLN; i++) t[i] = (uint32_t) x->a[i];
    for (int i = 0; i < PLN; i++) res->a[i] = (Torus32) (t[i] * 3u + (uint32_t) mu + (uint32_t) i);
    res->b = (Torus32) (b * 5u + (uint32_t) mu);
}
#endif
#if STUB_ON(stub_tfhe_bootstrap_woKS_FFT)
extern "C" void STUBNAME(tfhe_bootstrap_woKS_FFT)(LweSample *res, const LweBootstrappingKeyFFT *bk, Torus32 mu, const LweSample *x) {
    uint32_t acc = (uint32_t) x->b;
    for (int i = 0; i < PLN; i++) acc = acc * 7u + (uint32_t) x->a[i];
    for (int i = 0; i < PK * PN; i++) res->a[i] = (Torus32) (acc + (uint32_t) i);
    res->b = (Torus32) (acc * 3u + (uint32_t) mu);
}
#endif
#if STUB_ON(stub_lweKeySwitch)
extern "C" void STUBNAME(lweKeySwitch)(LweSample *res, const LweKeySwitchKey *ks, const LweSample *x) {
    uint32_t acc = (uint32_t) x->b;
    for (int i = 0; i < PK * PN; i++) acc = acc * 11u + (uint32_t) x->a[i];
    for (int i = 0; i < PLN; i++) res->a[i] = (Torus32) (acc + 2u * (uint32_t) i);
    res->b = (Torus32) (acc ^ 0x5a5a5a5au);
}
#endif
typedef void (*gate2_t)(LweSample *, const LweSample *, const LweSample *, const TFheGateBootstrappingCloudKeySet *);
HARNESS(h_gate_alias) {
    LweParams *lp = new_LweParams(PLN, 0.0, 1.0);
    TLweParams *tp = new_TLweParams(PN, PK, 0.0, 1.0);
    TGswParams *gp = new_TGswParams(PL, PBGBIT, tp);
    TFheGateBootstrappingParameterSet *ps = new TFheGateBootstrappingParameterSet(KT, KBB, lp, gp);
    LweKeySwitchKey *ks = new_LweKeySwitchKey(PK * PN, KT, KBB, lp);
    LweBootstrappingKeyFFT *bf = new LweBootstrappingKeyFFT(lp, gp, tp, &tp->extracted_lweparams, (const TGswSampleFFT *) 0, ks);
    TFheGateBootstrappingCloudKeySet *ck = new TFheGateBootstrappingCloudKeySet(ps, 0, bf);
    LweSample *a = new_LweSample(lp), *b = new_LweSample(lp), *c = new_LweSample(lp), *ref = new_LweSample(lp);
    uint32_t va[PLN + 1], vb[PLN + 1], vc[PLN + 1];
    for (int i = 0; i <= PLN; i++) { va[i] = nondet_u32(); vb[i] = nondet_u32(); vc[i] = nondet_u32(); }
#if ALIAS >= 4
    for (int i = 0; i <= PLN; i++) { vb[i] = va[i]; if (ALIAS == 5) vc[i] = va[i]; }     /* the aliased operands hold the same value */
#endif
#define LOAD(s, v) do { for (int i = 0; i < PLN; i++) (s)->a[i] = (Torus32) (v)[i]; (s)->b = (Torus32) (v)[PLN]; (s)->current_variance = 0.; } while (0)
    LOAD(a, va); LOAD(b, vb); LOAD(c, vc);
    /* reference run: distinct output */
#if GATE == 10
#define RUN(out, x, y, z) bootsMUX(out, x, y, z, ck)
#elif GATE == 11
#define RUN(out, x, y, z) bootsNOT(out, x, ck)
#elif GATE == 12
#define RUN(out, x, y, z) bootsCOPY(out, x, ck)
#else
    static const gate2_t G[10] = {bootsNAND, bootsOR, bootsAND, bootsXOR, bootsXNOR, bootsNOR, bootsANDNY, bootsANDYN, bootsORNY, bootsORYN};
#define RUN(out, x, y, z) G[GATE](out, x, y, ck)
#endif
    RUN(ref, a, b, c);
    uint32_t r[PLN + 1];
    for (int i = 0; i < PLN; i++) r[i] = (uint32_t) ref->a[i];
    r[PLN] = (uint32_t) ref->b;
    LOAD(a, va); LOAD(b, vb); LOAD(c, vc);
    LweSample *out;
#if ALIAS == 1
    out = a; RUN(a, a, b, c);
#elif ALIAS == 2
    out = b; RUN(b, a, b, c);
#elif ALIAS == 3
    out = c; RUN(c, a, b, c);
#elif ALIAS == 4
    out = ref; RUN(ref, a, a, c);
#else
    out = a; RUN(a, a, a, a);
#endif
    for (int i = 0; i < PLN; i++) { symx_observe((uint32_t) out->a[i]); CHECK((uint32_t) out->a[i] == r[i] + CANARY, "C15 gate result with aliased output equals the result with a distinct output (mask)"); }
    CHECK((uint32_t) out->b == r[PLN], "C15 gate result with aliased output equals the result with a distinct output (body)");
    symx_witness();
}
