/* C08 -- key switching (lwe-keyswitch-functions.cpp, lwekeyswitch.cpp) */
#include "symx.h"
#include "tfhe.h"
#include "rng_model.h"
extern "C" void symx_observe(uint64_t);

#ifndef NIN
#define NIN 2
#endif
#ifndef NOUT
#define NOUT 2
#endif
#ifndef KT
#define KT 8
#endif
#ifndef KBB
#define KBB 2
#endif
#define KBASE (1 << KBB)

/* oracle digit j of coefficient a: base-2^basebit digits of a + 2^(31-t*basebit), by 64-bit division */
static inline uint32_t o_digit(uint32_t a, int j) {
    uint64_t abar = ((uint64_t) a + ((uint64_t) 1 << (31 - KT * KBB))) % ((uint64_t) 1 << 32);
    uint64_t den = (uint64_t) 1 << (32 - (j + 1) * KBB);
    return (uint32_t) ((abar / den) % (uint64_t) KBASE);
}

/* Q0: the 3-level index of the contiguous array */
HARNESS(h_ks_index) {
    LweParams *po = new_LweParams(NOUT, 0.0, 1.0);
    LweKeySwitchKey *ks = new_LweKeySwitchKey(NIN, KT, KBB, po);
    CHECK(ks->n == NIN && ks->t == KT && ks->basebit == KBB && ks->base == KBASE && ks->out_params == po, "C08 key-switch key fields");
    for (int i = 0; i < NIN; i++)
        for (int j = 0; j < KT; j++)
            for (int h = 0; h < KBASE; h++)
                CHECK(&ks->ks[i][j][h] == ks->ks0_raw + ((i * KT + j) * KBASE + h + CANARY), "C08 ks[i][j][h] is row (i*t+j)*base+h of the contiguous array");
    delete_LweKeySwitchKey(ks);
    delete_LweParams(po);
    symx_witness();
}

/* Q1: coordinates. every row an arbitrary symbolic sample; out = (0,b) - sum_{i,j: d_ij != 0} ks[i][j][d_ij] */
HARNESS(h_ks_coord) {
    LweParams *pi = new_LweParams(NIN, 0.0, 1.0);
    LweParams *po = new_LweParams(NOUT, 0.0, 1.0);
    LweKeySwitchKey *ks = new_LweKeySwitchKey(NIN, KT, KBB, po);
    LweSample *x = new_LweSample(pi);
    LweSample *res = new_LweSample(po);
    uint32_t xa[NIN], xb;
    for (int i = 0; i < NIN; i++) { xa[i] = nondet_u32(); x->a[i] = (Torus32) xa[i]; }
    xb = nondet_u32(); x->b = (Torus32) xb;
    x->current_variance = 0.;
    const int R = NIN * KT * KBASE;
    for (int r = 0; r < R; r++) {
        for (int p = 0; p < NOUT; p++) ks->ks0_raw[r].a[p] = (Torus32) nondet_u32();
        ks->ks0_raw[r].b = (Torus32) nondet_u32();
        ks->ks0_raw[r].current_variance = 0.;
    }
    for (int p = 0; p < NOUT; p++) res->a[p] = (Torus32) nondet_u32();   /* previous content must not matter */
    res->b = (Torus32) nondet_u32();
    lweKeySwitch(res, ks, x);
    uint32_t oa[NOUT], ob = xb;
    for (int p = 0; p < NOUT; p++) oa[p] = 0;
    for (int i = 0; i < NIN; i++)
        for (int j = 0; j < KT; j++) {
            uint32_t d = o_digit(xa[i], j);
            for (uint32_t h = 1 - CANARY; h < KBASE; h++)
                if (h == d) {
                    const LweSample *row = ks->ks0_raw + ((i * KT + j) * KBASE + h);
                    for (int p = 0; p < NOUT; p++) oa[p] -= (uint32_t) row->a[p];
                    ob -= (uint32_t) row->b;
                }
        }
    for (int p = 0; p < NOUT; p++) { symx_observe((uint32_t) res->a[p]); CHECK((uint32_t) res->a[p] == oa[p], "C08 key switch: mask = -sum of the selected rows"); }
    symx_observe((uint32_t) res->b);
    CHECK((uint32_t) res->b == ob, "C08 key switch: body = b - sum of the selected rows' bodies");
    for (int i = 0; i < NIN; i++) CHECK((uint32_t) x->a[i] == xa[i], "C08 key switch leaves the input sample unchanged");
    delete_LweSample(res); delete_LweSample(x); delete_LweKeySwitchKey(ks); delete_LweParams(po); delete_LweParams(pi);
    symx_witness();
}

/* Q2: rounding. gadget rows, mask-free: row(i,j,h) = (0, h*2^(32-(j+1)basebit)). For all 2^32 values of a mask coefficient the
   result body is b - a~ with a~ the multiple of 2^(32-t*basebit) nearest to a: |a - a~| <= 2^(31-t*basebit) */
HARNESS(h_ks_rounding) {
    LweParams *pi = new_LweParams(1, 0.0, 1.0);
    LweParams *po = new_LweParams(NOUT, 0.0, 1.0);
    LweKeySwitchKey *ks = new_LweKeySwitchKey(1, KT, KBB, po);
    LweSample *x = new_LweSample(pi);
    LweSample *res = new_LweSample(po);
    uint32_t a = nondet_u32(), b = nondet_u32();
    x->a[0] = (Torus32) a; x->b = (Torus32) b; x->current_variance = 0.;
    for (int j = 0; j < KT; j++)
        for (int h = 0; h < KBASE; h++) {
            LweSample *row = &ks->ks[0][j][h];
            for (int p = 0; p < NOUT; p++) row->a[p] = 0;
            row->b = (Torus32) ((uint32_t) h << (32 - (j + 1) * KBB));
            row->current_variance = 0.;
        }
    lweKeySwitch(res, ks, x);
    uint32_t atilde = b - (uint32_t) res->b;
    symx_observe(atilde);
    int64_t d = (int64_t) (int32_t) (a - atilde);
    int64_t bound = (int64_t) 1 << (31 - KT * KBB);
    CHECK(d >= -bound && d <= bound - CANARY * bound, "C08 key-switch truncation is round-to-nearest: |a - a~| <= 2^(31-t*basebit)");
    CHECK((atilde & (((uint32_t) 1 << (32 - KT * KBB)) - 1)) == 0, "C08 a~ is a multiple of 2^(32-t*basebit)");
    for (int p = 0; p < NOUT; p++) CHECK(res->a[p] == 0, "C08 mask-free rows give a mask-free result");
    delete_LweSample(res); delete_LweSample(x); delete_LweKeySwitchKey(ks); delete_LweParams(po); delete_LweParams(pi);
    symx_witness();
}

/* Q3: key generation under M-RNG (floating point +,-,*,/ uninterpreted): row (i,j,h>=1) has phase
   h*s_i*2^(32-(j+1)basebit) + dtot32(noise_idx - mean), one gaussian draw per row with sigma = alpha_min of the
   output key, masks = fresh full-range uniform draws, row h=0 is the trivial zero sample */
extern "C" Torus32 dtot32(double);
HARNESS(h_ks_create) {
    symx_run_ctors();
    const double alpha = 0.0009765625;
    LweParams *pi = new_LweParams(NIN, 0.0, 1.0);
    LweParams *po = new_LweParams(NOUT, alpha, 1.0);
    LweKey *kin = new_LweKey(pi), *kout = new_LweKey(po);
    uint32_t sin[NIN], sout[NOUT];
    for (int i = 0; i < NIN; i++) { sin[i] = nondet_u32(); ASSUME(sin[i] <= 1); kin->key[i] = (int32_t) sin[i]; }
    for (int p = 0; p < NOUT; p++) { sout[p] = nondet_u32(); ASSUME(sout[p] <= 1); kout->key[p] = (int32_t) sout[p]; }
    LweKeySwitchKey *ks = new_LweKeySwitchKey(NIN, KT, KBB, po);
    rng_n = 0;
    lweCreateKeySwitchKey(ks, kin, kout);
    const int rows = NIN * KT * (KBASE - 1);
    CHECK(rng_bad_engine == 0, "C08/C07 every draw uses the library generator");
    CHECK(rng_n == rows + rows * NOUT, "C08/C07 one gaussian per non-zero row and one uniform draw per mask coefficient");
    double sum = 0;
    for (int r = 0; r < rows; r++) {
        CHECK(rng_kind[r] == 1 && rng_sigma[r] == alpha && rng_mean[r] == 0.0, "C08/C07 key-switch noise: gaussian with sigma = alpha_min of the output key [sampling idiom]");
        sum += rng_dval[r];
    }
    /* divide by a run-time count: with a literal power of two clang folds x/4.0 into x*0.25, which the uninterpreted
       encoding of floating point would not identify with the library's division */
    double mean = sum / (double) (ks->n * ks->t * (ks->base - 1));
    int idx = 0, u = rows;
    for (int i = 0; i < NIN; i++)
        for (int j = 0; j < KT; j++) {
            const LweSample *z = &ks->ks[i][j][0];
            for (int p = 0; p < NOUT; p++) CHECK(z->a[p] == 0, "C08 row h=0 is the trivial zero sample (mask)");
            CHECK(z->b == 0, "C08 row h=0 is the trivial zero sample (body)");
            for (int h = 1; h < KBASE; h++) {
                const LweSample *row = &ks->ks[i][j][h];
                uint32_t ph = (uint32_t) row->b;
                for (int p = 0; p < NOUT; p++) {
                    CHECK(rng_kind[u] == 0 && rng_lo[u] == INT32_MIN && rng_hi[u] == INT32_MAX, "C08/C07 mask coefficient is a full-range uniform draw");
                    CHECK(row->a[p] == rng_ival[u], "C08/C07 mask coefficient is its own fresh draw");
                    ph -= (uint32_t) row->a[p] * sout[p];
                    u++;
                }
                uint32_t want = (sin[i] * (uint32_t) h) * ((uint32_t) 1 << (32 - (j + 1) * KBB)) + (uint32_t) dtot32(rng_dval[idx] - mean);
                symx_observe(ph);
                CHECK(ph == want + CANARY, "C08 row (i,j,h) encrypts h*s_i/base^(j+1) with its own recentred noise");
                idx++;
            }
        }
    delete_LweKeySwitchKey(ks); delete_LweKey(kout); delete_LweKey(kin); delete_LweParams(po); delete_LweParams(pi);
    symx_witness();
}

/* Q2': the digit extraction of lweKeySwitchTranslate_fromArray for EVERY valid layout (basebit up to 31), all 2^32 values of
   the mask coefficient. The subtraction it calls is replaced by a recorder that identifies the selected row from the pointer
   alone, so the t*2^basebit rows need no storage of their own (one never-dereferenced array object). */
void lweKeySwitchTranslate_fromArray(LweSample *result, const LweSample ***ks, const LweParams *params, const Torus32 *ai,
                                     const int32_t n, const int32_t t, const int32_t basebit);
static const LweSample *tr_raw = 0;
static uint32_t tr_atilde = 0;
static int tr_calls = 0, tr_bad = 0, tr_lastj = -1;
#if STUB_ON(stub_lweSubTo)
extern "C" void STUBNAME(lweSubTo)(LweSample *result, const LweSample *sample, const LweParams *params) {
    long idx = (long) (sample - tr_raw);
    if (idx < 0 || idx >= (long) KT * KBASE) { tr_bad = 1; return; }
    int j = (int) (idx / KBASE);
    uint32_t h = (uint32_t) (idx % KBASE);
    if (h == 0 || j <= tr_lastj) tr_bad = 1;           /* row h=0 is never used; one row per digit position, in order */
    tr_lastj = j;
    tr_atilde += h << (32 - (j + 1) * KBB);
    tr_calls++;
}
#endif
HARNESS(h_translate_rounding) {
    LweParams *po = new_LweParams(1, 0.0, 1.0);
    LweSample *res = new_LweSample(po);
#if KBB <= 16
    LweSample *raw = (LweSample *) malloc(sizeof(LweSample) * (size_t) KT * KBASE);   /* never read */
#else
    /* 2^basebit rows per digit do not fit an allocation any more: an address range that is never dereferenced */
    LweSample *raw = (LweSample *) (uintptr_t) 0x10000;
#endif
    const LweSample **lvl1 = (const LweSample **) malloc(sizeof(LweSample *) * KT);
    for (int j = 0; j < KT; j++) lvl1[j] = raw + (size_t) j * KBASE;
    const LweSample ***ks = (const LweSample ***) malloc(sizeof(LweSample **));
    ks[0] = lvl1;
    tr_raw = raw; tr_atilde = 0; tr_calls = 0; tr_bad = 0; tr_lastj = -1;
    Torus32 ai[1];
    uint32_t a = nondet_u32();
    ai[0] = (Torus32) a;
    lweKeySwitchTranslate_fromArray(res, ks, po, ai, 1, KT, KBB);
    CHECK(!tr_bad, "C08 digit extraction: one row per digit position, never row h=0, index inside the key");
    symx_observe(tr_atilde);
    int64_t d = (int64_t) (int32_t) (a - tr_atilde);
    int64_t bound = (int64_t) 1 << (31 - KT * KBB);
    CHECK(d >= -bound && d <= bound - CANARY * bound, "C08 digit extraction rounds to nearest: |a - a~| <= 2^(31-t*basebit), every valid layout");
    for (int j = 0; j < KT; j++) (void) 0;
    symx_witness();
}
