/* C09 -- external product, CMux step, blind rotation loop, FFT image of the key
 * (tgsw-functions.cpp, tgsw-fft-operations.cpp, tlwe-fft-operations.cpp, lwe-bootstrapping-functions(-fft).cpp)
 * decided modularly in ciphertext coordinates (DESIGN.md section 4, query-shaping rule); ring back-end = M-FFT-ideal */
#include "symx.h"
#include "tfhe.h"
#include "polynomials_arithmetic.h"
extern "C" void symx_observe(uint64_t);

#ifndef PN
#define PN 2
#endif
#ifndef PK
#define PK 1
#endif
#ifndef PL
#define PL 2
#endif
#ifndef PBGBIT
#define PBGBIT 8
#endif
#define KPL ((PK + 1) * PL)

struct P { TLweParams *tp; TGswParams *gp; };
static void mk(P &p) { p.tp = new_TLweParams(PN, PK, 0.0, 1.0); p.gp = new_TGswParams(PL, PBGBIT, p.tp); }
static void rm(P &p) { delete_TGswParams(p.gp); delete_TLweParams(p.tp); }

static void fill_tlwe(TLweSample *c, uint32_t x[PK + 1][PN]) {
    for (int i = 0; i <= PK; i++) for (int j = 0; j < PN; j++) { x[i][j] = nondet_u32(); c->a[i].coefsT[j] = (Torus32) x[i][j]; }
    c->current_variance = 0.;
}
static void fill_tgsw(TGswSample *g, uint32_t x[KPL][PK + 1][PN]) {
    for (int p = 0; p < KPL; p++) fill_tlwe(&g->all_sample[p], x[p]);
}
static void o_ringmul(uint32_t *r, const uint32_t *a, const uint32_t *b) {
    for (int i = 0; i < PN; i++) {
        uint32_t acc = 0;
        for (int j = 0; j <= i; j++) acc += a[j] * b[i - j];
        for (int j = i + 1; j < PN; j++) acc -= a[j] * b[PN + i - j];
        r[i] = acc;
    }
}

/* ------------------------------------------------------------------ a. gadget rows */
#ifndef GADGET_OP    /* 0 tGswAddMuH, 1 tGswAddMuIntH, 2 tGswAddH, 3 tGswNoiselessTrivial, 4 tGswClear */
#define GADGET_OP 0
#endif
HARNESS(h_gadget_rows) {
    P p; mk(p);
    TGswSample *g = new_TGswSample(p.gp);
    static uint32_t x[KPL][PK + 1][PN];
    fill_tgsw(g, x);
    IntPolynomial *m = new_IntPolynomial(PN);
    uint32_t mm[PN];
    for (int j = 0; j < PN; j++) { mm[j] = nondet_u32(); m->coefs[j] = (int32_t) mm[j]; }
    uint32_t mi = nondet_u32();
#if GADGET_OP == 0
    tGswAddMuH(g, m, p.gp);
#elif GADGET_OP == 1
    tGswAddMuIntH(g, (int32_t) mi, p.gp);
#elif GADGET_OP == 2
    tGswAddH(g, p.gp);
#elif GADGET_OP == 3
    tGswNoiselessTrivial(g, m, p.gp);
#else
    tGswClear(g, p.gp);
#endif
    for (int bl = 0; bl <= PK; bl++)
        for (int q = 0; q < PL; q++) {
            CHECK(&g->bloc_sample[bl][q] == &g->all_sample[bl * PL + q], "C09 bloc_sample[bl][q] is row bl*l+q");
            for (int i = 0; i <= PK; i++)
                for (int j = 0; j < PN; j++) {
                    uint32_t base = (GADGET_OP >= 3) ? 0u : x[bl * PL + q][i][j];
                    uint32_t hq = (uint32_t) 1 << (32 - (q + 1) * PBGBIT);
                    uint32_t msg = GADGET_OP == 0 || GADGET_OP == 3 ? mm[j] : GADGET_OP == 1 ? (j == 0 ? mi : 0u) : GADGET_OP == 2 ? (j == 0 ? 1u : 0u) : 0u;
                    uint32_t want = base + ((i == bl) ? msg * hq : 0u) + ((CANARY && i == bl && q == 0 && j == 0) ? 1u : 0u);
                    symx_observe((uint32_t) g->all_sample[bl * PL + q].a[i].coefsT[j]);
                    CHECK((uint32_t) g->all_sample[bl * PL + q].a[i].coefsT[j] == want, "C09 gadget row: m*Bg^-(q+1) added to polynomial bl of row bl*l+q, rest unchanged");
                }
        }
    delete_IntPolynomial(m); delete_TGswSample(g); rm(p);
    symx_witness();
}

/* ------------------------------------------------------------------ b. external product, decomposition stubbed by its C12 contract */
static uint32_t dg[KPL][PN];               /* the digits the stub handed out, block by block */
static int dg_calls = 0, dg_bad = 0;
static const TLweSample *dg_accum = 0;
static IntPolynomial *dg_dest = 0;
#if STUB_ON(stub_tGswTorus32PolynomialDecompH)
extern "C" void STUBNAME(tGswTorus32PolynomialDecompH)(IntPolynomial *result, const TorusPolynomial *sample, const TGswParams *params) {
    /* contract (property C12): l digit polynomials with coefficients in [-Bg/2,Bg/2), source unchanged. Records which block is
       written from which source polynomial */
    int i = dg_calls;
    if (i > PK) { dg_bad = 1; return; }
    if (dg_accum && sample != &dg_accum->a[i]) dg_bad = 1;
    if (i == 0) dg_dest = result; else if (result != dg_dest + i * PL) dg_bad = 1;
    for (int q = 0; q < PL; q++)
        for (int j = 0; j < PN; j++) {
            uint32_t d = nondet_u32();    /* the coordinate identity below is a ring identity: it holds for arbitrary digit values,
                                             so the range part of the contract is not even needed (and range assumptions on signed
                                             values slow the integer encoding down to a timeout) */
            dg[i * PL + q][j] = d;
            result[q].coefs[j] = (int32_t) d;
        }
    dg_calls++;
}
#endif
#ifndef EXTVAR    /* 0 tGswFFTExternMulToTLwe, 1 tGswExternMulToTLwe, 2 tGswExternProduct */
#define EXTVAR 0
#endif
HARNESS(h_extern_product) {
    P p; mk(p);
    TGswSample *g = new_TGswSample(p.gp);
    TLweSample *acc = new_TLweSample(p.tp), *out = new_TLweSample(p.tp);
    static uint32_t rows[KPL][PK + 1][PN];
    uint32_t a0[PK + 1][PN];
    fill_tgsw(g, rows);
    fill_tlwe(acc, a0);
    dg_calls = 0; dg_bad = 0; dg_accum = acc;
#if EXTVAR == 0
    TGswSampleFFT *gf = new_TGswSampleFFT(p.gp);
    tGswToFFTConvert(gf, g, p.gp);
    tGswFFTExternMulToTLwe(acc, gf, p.gp);
    TLweSample *res = acc;
#elif EXTVAR == 1
    tGswExternMulToTLwe(acc, g, p.gp);
    TLweSample *res = acc;
#else
    tGswExternProduct(out, g, acc, p.gp);
    TLweSample *res = out;
#endif
    CHECK(dg_calls == PK + 1 && !dg_bad, "C09 the accumulator is decomposed once per polynomial i<=k, block i*l from a[i]");
    for (int i = 0; i <= PK; i++) {
        uint32_t want[PN];
        for (int j = 0; j < PN; j++) want[j] = 0;
        for (int r = 0; r < KPL; r++) {               /* same association as the accumulation it specifies: a reversed order
                                                         turns the query into re-association of 8-32 wrapped products, which no
                                                         back-end finished in 600 s */
            uint32_t t[PN];
            o_ringmul(t, dg[r], rows[r][i]);
            for (int j = 0; j < PN; j++) want[j] += t[j];
        }
        for (int j = 0; j < PN; j++) {
            symx_observe((uint32_t) res->a[i].coefsT[j]);
            CHECK((uint32_t) res->a[i].coefsT[j] == want[j] + CANARY, "C09 external product: out.a[i] = sum_p digit_p (*) row_p.a[i]");
        }
    }
    for (int r = 0; r < KPL; r++) for (int i = 0; i <= PK; i++) for (int j = 0; j < PN; j++)
        CHECK((uint32_t) g->all_sample[r].a[i].coefsT[j] == rows[r][i][j], "C09 external product leaves the TGSW sample unchanged");
#if EXTVAR == 2
    for (int i = 0; i <= PK; i++) for (int j = 0; j < PN; j++) CHECK((uint32_t) acc->a[i].coefsT[j] == a0[i][j], "C09 tGswExternProduct leaves its TLWE operand unchanged");
#endif
#if EXTVAR == 0
    delete_TGswSampleFFT(gf);
#endif
    delete_TLweSample(out); delete_TLweSample(acc); delete_TGswSample(g); rm(p);
    symx_witness();
}

/* b'. algebra lemma (harness only): sum_q d_q (*) (m h_q) == m (*) sum_q d_q h_q  -- with a., b., C12 and C14 this gives
   phase(out) = m (*) phase(c) + error, |error| < ||m||_1 (k+1) N 2^(32-l Bgbit) */
HARNESS(h_lemma_gadget_linear) {
    uint32_t m[PN], d[PL][PN], lhs[PN], rec[PN], rhs[PN];
    for (int j = 0; j < PN; j++) { m[j] = nondet_u32(); lhs[j] = 0; rec[j] = 0; }
    for (int q = 0; q < PL; q++) {
        uint32_t hq = (uint32_t) 1 << (32 - (q + 1) * PBGBIT), mh[PN], t[PN];
        for (int j = 0; j < PN; j++) { d[q][j] = nondet_u32(); mh[j] = m[j] * hq; rec[j] += d[q][j] * hq; }
        o_ringmul(t, d[q], mh);
        for (int j = 0; j < PN; j++) lhs[j] += t[j];
    }
    o_ringmul(rhs, m, rec);
    for (int j = 0; j < PN; j++) CHECK(lhs[j] == rhs[j] + CANARY, "C09 lemma: sum_q d_q*(m h_q) = m*(sum_q d_q h_q)");
    symx_witness();
}

/* ------------------------------------------------------------------ b''. CMux step with the external product stubbed */
static uint32_t ep_in[PK + 1][PN], ep_out[PK + 1][PN];
static int ep_calls = 0, ep_bad = 0;
static const void *ep_bki = 0;
static TLweSample *ep_acc = 0;
static void ep_body(TLweSample *accum, const void *bki) {
    if (ep_calls > 0 || bki != ep_bki) ep_bad = 1;
    ep_acc = accum;
    for (int i = 0; i <= PK; i++) for (int j = 0; j < PN; j++) {
        ep_in[i][j] = (uint32_t) accum->a[i].coefsT[j];
        ep_out[i][j] = nondet_u32();
        accum->a[i].coefsT[j] = (Torus32) ep_out[i][j];
    }
    ep_calls++;
}
#if STUB_ON(stub_tGswFFTExternMulToTLwe)
extern "C" void STUBNAME(tGswFFTExternMulToTLwe)(TLweSample *accum, const TGswSampleFFT *gsw, const TGswParams *params) { ep_body(accum, gsw); }
#endif
#if STUB_ON(stub_tGswExternMulToTLwe)
extern "C" void STUBNAME(tGswExternMulToTLwe)(TLweSample *accum, const TGswSample *gsw, const TGswParams *params) { ep_body(accum, gsw); }
#endif
void tfhe_MuxRotate_FFT(TLweSample *result, const TLweSample *accum, const TGswSampleFFT *bki, const int32_t barai, const TGswParams *bk_params);
void tfhe_MuxRotate(TLweSample *result, const TLweSample *accum, const TGswSample *bki, const int32_t barai, const TGswParams *bk_params);
#ifndef MUXFFT
#define MUXFFT 1
#endif
HARNESS(h_cmux_step) {
    P p; mk(p);
    TLweSample *acc = new_TLweSample(p.tp), *res = new_TLweSample(p.tp);
    uint32_t a0[PK + 1][PN], junk[PK + 1][PN];
    fill_tlwe(acc, a0);
    fill_tlwe(res, junk);
    uint32_t a = nondet_u32();
    ASSUME(a >= 1 && a < 2 * PN);
    ep_calls = 0; ep_bad = 0;
#if MUXFFT
    TGswSampleFFT *bki = new_TGswSampleFFT(p.gp);
    ep_bki = bki;
    tfhe_MuxRotate_FFT(res, acc, bki, (int32_t) a, p.gp);
#else
    TGswSample *bki = new_TGswSample(p.gp);
    ep_bki = bki;
    tfhe_MuxRotate(res, acc, bki, (int32_t) a, p.gp);
#endif
    CHECK(ep_calls == 1 && !ep_bad && ep_acc == res, "C09 CMux: one external product, with bk_i, in place on the result buffer");
    for (int i = 0; i <= PK; i++) {
        uint32_t rot[PN];
        for (uint32_t j = 0; j < PN; j++) { uint32_t k = j + a, qd = k / PN, idx = k % PN; rot[idx] = (qd & 1) ? 0u - a0[i][j] : a0[i][j]; }
        for (int j = 0; j < PN; j++) {
            CHECK(ep_in[i][j] == rot[j] - a0[i][j], "C09 CMux: the external product is applied to (X^a - 1)*ACC");
            symx_observe((uint32_t) res->a[i].coefsT[j]);
            CHECK((uint32_t) res->a[i].coefsT[j] == ep_out[i][j] + a0[i][j] + CANARY, "C09 CMux: result = ACC + BK_i x ((X^a-1) ACC)");
            CHECK((uint32_t) acc->a[i].coefsT[j] == a0[i][j], "C09 CMux leaves the source accumulator unchanged");
        }
    }
#if MUXFFT
    delete_TGswSampleFFT(bki);
#else
    delete_TGswSample(bki);
#endif
    delete_TLweSample(res); delete_TLweSample(acc); rm(p);
    symx_witness();
}

/* ------------------------------------------------------------------ c2. rotation loop with the CMux step stubbed as a recorder */
#ifndef PLN
#define PLN 3
#endif
static int mr_calls = 0, mr_bad = 0;
static int mr_idx[PLN + 1], mr_a[PLN + 1];
static const void *mr_bk0 = 0;
static size_t mr_stride = 0;
static TLweSample *mr_accum = 0, *mr_last_dst = 0;
static const TLweSample *mr_expect_src = 0;
static uint32_t mr_val[(PLN + 1) * (PK + 1) * PN];
#define MRV(c, i, j) mr_val[((c) * (PK + 1) + (i)) * PN + (j)]
static void mr_body(TLweSample *result, const TLweSample *accum, const void *bki, int32_t barai) {
    int c = mr_calls;
    if (c >= PLN) { mr_bad = 1; return; }
    if (accum != mr_expect_src) mr_bad = 1;                 /* source = the buffer written last (accum at first) */
    if (result == accum) mr_bad = 1;
    if (c >= 1 && result != mr_expect_src && 0) mr_bad = 1;
    mr_idx[c] = (int) (((const char *) bki - (const char *) mr_bk0) / (long) mr_stride);
    if ((const char *) mr_bk0 + (size_t) mr_idx[c] * mr_stride != (const char *) bki) mr_bad = 1;
    mr_a[c] = barai;
    for (int i = 0; i <= PK; i++) for (int j = 0; j < PN; j++) { MRV(c, i, j) = nondet_u32(); result->a[i].coefsT[j] = (Torus32) MRV(c, i, j); }
    mr_expect_src = result;
    mr_last_dst = result;
    mr_calls++;
}
#if STUB_ON(stub_MuxRotate_FFT)
STUB_CXX(void, stub_MuxRotate_FFT, "_Z18tfhe_MuxRotate_FFTP10TLweSamplePKS_PK13TGswSampleFFTiPK10TGswParams",
         (TLweSample *result, const TLweSample *accum, const TGswSampleFFT *bki, const int32_t barai, const TGswParams *bk_params)) { mr_body(result, accum, bki, barai); }
#endif
#if STUB_ON(stub_MuxRotate)
STUB_CXX(void, stub_MuxRotate, "_Z14tfhe_MuxRotateP10TLweSamplePKS_PK10TGswSampleiPK10TGswParams",
         (TLweSample *result, const TLweSample *accum, const TGswSample *bki, const int32_t barai, const TGswParams *bk_params)) { mr_body(result, accum, bki, barai); }
#endif
HARNESS(h_rotate_loop) {
    P p; mk(p);
    TLweSample *acc = new_TLweSample(p.tp);
    uint32_t a0[PK + 1][PN];
    fill_tlwe(acc, a0);
    int32_t bara[PLN];
    int nz = 0;
    for (int i = 0; i < PLN; i++) { uint32_t a = nondet_u32(); ASSUME(a < 2 * PN); bara[i] = (int32_t) a; if (a) nz++; }
    mr_calls = 0; mr_bad = 0; mr_expect_src = acc; mr_accum = acc; mr_last_dst = 0;
#if MUXFFT
    TGswSampleFFT *bk = new_TGswSampleFFT_array(PLN, p.gp);
    mr_bk0 = bk; mr_stride = sizeof(TGswSampleFFT);
    tfhe_blindRotate_FFT(acc, bk, bara, PLN, p.gp);
#else
    TGswSample *bk = new_TGswSample_array(PLN, p.gp);
    mr_bk0 = bk; mr_stride = sizeof(TGswSample);
    tfhe_blindRotate(acc, bk, bara, PLN, p.gp);
#endif
    CHECK(!mr_bad, "C09 rotation loop: each step reads the buffer written by the previous one, into the other buffer, with an element of bk");
    CHECK(mr_calls == nz + CANARY, "C09 rotation loop: one CMux step per non-zero exponent (zero exponents skipped)");
    int c = 0;
    for (int i = 0; i < PLN; i++)
        if (bara[i] != 0) {
            if (c < mr_calls) CHECK(mr_idx[c] == i && mr_a[c] == bara[i], "C09 rotation loop: step c uses bk[i] and bara[i] of the c-th non-zero exponent, in index order");
            c++;
        }
    for (int i = 0; i <= PK; i++) for (int j = 0; j < PN; j++) {
        uint32_t want = a0[i][j];
        for (int k = 0; k < PLN; k++) if (k == mr_calls - 1) want = MRV(k, i, j);
        symx_observe((uint32_t) acc->a[i].coefsT[j]);
        CHECK((uint32_t) acc->a[i].coefsT[j] == want, "C09 rotation loop: the last written buffer ends up in accum, for every parity");
    }
#if MUXFFT
    delete_TGswSampleFFT_array(PLN, bk);
#else
    delete_TGswSample_array(PLN, bk);
#endif
    delete_TLweSample(acc); rm(p);
    symx_witness();
}

/* ------------------------------------------------------------------ d. FFT image of the key (over the exact ring model) */
struct IdealLagrange { int32_t N; uint32_t *c; };
HARNESS(h_fft_image) {
    P p; mk(p);
    TGswSample *g = new_TGswSample(p.gp), *back = new_TGswSample(p.gp);
    TGswSampleFFT *gf = new_TGswSampleFFT(p.gp);
    static uint32_t rows[KPL][PK + 1][PN];
    fill_tgsw(g, rows);
    tGswToFFTConvert(gf, g, p.gp);
    for (int r = 0; r < KPL; r++)
        for (int i = 0; i <= PK; i++) {
            const IdealLagrange *il = (const IdealLagrange *) gf->all_samples[r].a[i].data;
            for (int j = 0; j < PN; j++) CHECK(il->c[j] == rows[r][i][j] + ((CANARY && r == KPL - 1 && i == PK) ? 1u : 0u), "C09 row p of the FFT key is the image of row p of the key");
        }
    for (int bl = 0; bl <= PK; bl++) CHECK(gf->sample[bl] == gf->all_samples + bl * PL, "C09 TGswSampleFFT block pointers");
    tGswFromFFTConvert(back, gf, p.gp);
    for (int r = 0; r < KPL; r++) for (int i = 0; i <= PK; i++) for (int j = 0; j < PN; j++)
        CHECK((uint32_t) back->all_sample[r].a[i].coefsT[j] == rows[r][i][j], "C09 from-FFT(to-FFT(row)) = row");
    tGswFFTAddH(gf, p.gp);
    for (int bl = 0; bl <= PK; bl++) for (int q = 0; q < PL; q++) for (int i = 0; i <= PK; i++) {
        const IdealLagrange *il = (const IdealLagrange *) gf->all_samples[bl * PL + q].a[i].data;
        for (int j = 0; j < PN; j++) {
            uint32_t want = rows[bl * PL + q][i][j] + ((i == bl && j == 0) ? (uint32_t) 1 << (32 - (q + 1) * PBGBIT) : 0u);
            CHECK(il->c[j] == want, "C09 tGswFFTAddH adds Bg^-(q+1) on the block diagonal in the FFT domain");
        }
    }
    tGswFFTClear(gf, p.gp);
    for (int r = 0; r < KPL; r++) for (int i = 0; i <= PK; i++) {
        const IdealLagrange *il = (const IdealLagrange *) gf->all_samples[r].a[i].data;
        for (int j = 0; j < PN; j++) CHECK(il->c[j] == 0, "C09 tGswFFTClear");
    }
    delete_TGswSampleFFT(gf); delete_TGswSample(back); delete_TGswSample(g); rm(p);
    symx_witness();
}

/* bootstrapping key -> FFT bootstrapping key: every TGSW row imaged, key-switching part copied entry for entry */
#ifndef KT
#define KT 2
#endif
#ifndef KBB
#define KBB 1
#endif
HARNESS(h_bkfft_image) {
    P p; mk(p);
    LweParams *lp = new_LweParams(PLN, 0.0, 1.0);
    LweBootstrappingKey *bk = new_LweBootstrappingKey(KT, KBB, lp, p.gp);
    static uint32_t rows[PLN][KPL][PK + 1][PN];
    for (int i = 0; i < PLN; i++) fill_tgsw(&bk->bk[i], rows[i]);
    const int R = PK * PN * KT * (1 << KBB);
    static uint32_t ka[PK * PN * KT * (1 << KBB)][PLN], kb[PK * PN * KT * (1 << KBB)];
    for (int r = 0; r < R; r++) {
        for (int q = 0; q < PLN; q++) { ka[r][q] = nondet_u32(); bk->ks->ks0_raw[r].a[q] = (Torus32) ka[r][q]; }
        kb[r] = nondet_u32(); bk->ks->ks0_raw[r].b = (Torus32) kb[r];
        bk->ks->ks0_raw[r].current_variance = 0.;
    }
    LweBootstrappingKeyFFT *bf = new_LweBootstrappingKeyFFT(bk);
    CHECK(bf->in_out_params == lp && bf->bk_params == p.gp && bf->accum_params == p.tp && bf->extract_params == &p.tp->extracted_lweparams, "C09 FFT key parameters");
    CHECK(bf->ks != bk->ks && bf->ks->n == PK * PN && bf->ks->t == KT && bf->ks->basebit == KBB && bf->ks->out_params == lp, "C09 FFT key owns a key-switching key of the same shape");
    for (int r = 0; r < R; r++) {
        for (int q = 0; q < PLN; q++) CHECK((uint32_t) bf->ks->ks0_raw[r].a[q] == ka[r][q], "C09 key-switching rows copied entry for entry (mask)");
        CHECK((uint32_t) bf->ks->ks0_raw[r].b == kb[r] + ((CANARY && r == R - 1) ? 1u : 0u), "C09 key-switching rows copied entry for entry (body)");
    }
    for (int i = 0; i < PLN; i++) for (int r = 0; r < KPL; r++) for (int c = 0; c <= PK; c++) {
        const IdealLagrange *il = (const IdealLagrange *) bf->bkFFT[i].all_samples[r].a[c].data;
        for (int j = 0; j < PN; j++) CHECK(il->c[j] == rows[i][r][c][j], "C09 bkFFT[i] row p is the image of bk[i] row p");
    }
    delete_LweBootstrappingKeyFFT(bf); delete_LweBootstrappingKey(bk); delete_LweParams(lp); rm(p);
    symx_witness();
}
