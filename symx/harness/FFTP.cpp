/* FFT processor objects of the real back-ends (C16: construction/destruction frees everything; C06: a transform never
 * depends on what an earlier call left in the processor's scratch buffers). Floating-point +,-,*,/ are uninterpreted:
 * these properties are about which cells are allocated, freed, read and written - not about values. */
#include <complex>
#include <cmath>
#include <cassert>
#include <string>
#include <vector>
#include <iostream>
#include "tfhe.h"
#include "polynomials.h"
#define private public          /* harness only: the scratch buffers are private members (standard headers are already included above) */
#include "lagrangehalfc_impl.h"
#undef private
#include "symx.h"
extern "C" void symx_observe(uint64_t);

#ifndef PN
#define PN 16
#endif
#ifndef PROC    /* 0 nayuki, 1 spqlios */
#define PROC 0
#endif
#if PROC == 0
typedef FFT_Processor_nayuki Proc;
#else
typedef FFT_Processor_Spqlios Proc;
#endif

HARNESS(h_processor_lifecycle) {
    {
        Proc p(PN);
        CHECK(p.N == PN && p._2N == 2 * PN && p.Ns2 == PN / 2, "C16 processor dimensions");
    }   /* destructor runs here: with --memory-leak-check every table and buffer must have been freed */
    symx_witness();
}

#if PROC == 1
/* the hand-written assembly kernels are outside the encoding: an in-place transform that reads every input cell and writes
   every output cell (a chain of uninterpreted operations over all n inputs) */
extern "C" double *fft_table_get_buffer(const void *tables);
static void uf_transform(double *data, int n) {
    double acc = 0.0;
    for (int i = 0; i < n; i++) acc = acc * 0.5 + data[i];
    for (int i = 0; i < n; i++) data[i] = acc * (double) (i + 1) + data[i];
}
#if STUB_ON(stub_fft)
extern "C" void STUBNAME(fft)(const void *tables, double *data) { uf_transform(data, PN); }
#endif
#if STUB_ON(stub_ifft)
extern "C" void STUBNAME(ifft)(const void *tables, double *data) { uf_transform(data, PN); }
#endif
#endif

static void havoc_scratch(Proc &p) {
#if PROC == 0
    for (int i = 0; i < 2 * PN; i++) { p.real_inout[i] = nondet_f64(); p.imag_inout[i] = nondet_f64(); }
#else
    for (int i = 0; i < PN; i++) { p.real_inout_direct[i] = nondet_f64(); p.real_inout_rev[i] = nondet_f64(); }
#endif
}

#ifndef XFORM   /* 0 execute_reverse_int, 1 execute_reverse_torus32, 2 execute_direct_torus32 */
#define XFORM 0
#endif
HARNESS(h_history_independent) {
    Proc p(PN);
    int32_t a[PN];
    for (int i = 0; i < PN; i++) a[i] = (int32_t) nondet_u32();
    /* Lagrange-domain input / outputs as raw doubles (N doubles = N/2 complex numbers for nayuki, N reals for spqlios) */
    static double ind[PN], r1d[PN], r2d[PN];
    for (int i = 0; i < PN; i++) { double v = nondet_f64(); ASSUME(v == v); ind[i] = v; r1d[i] = 0; r2d[i] = 0; }
    int32_t t1[PN], t2[PN];
    for (int i = 0; i < PN; i++) { t1[i] = 0; t2[i] = 0; }
#if PROC == 0
#define LAG(x) ((cplx *) (x))
#else
#define LAG(x) (x)
#endif
    /* first call after an arbitrary history (scratch holds anything), second call after another arbitrary history */
    havoc_scratch(p);
#if XFORM == 0
    p.execute_reverse_int(LAG(r1d), a);
#elif XFORM == 1
    p.execute_reverse_torus32(LAG(r1d), (const Torus32 *) a);
#else
    p.execute_direct_torus32((Torus32 *) t1, LAG(ind));
#endif
    havoc_scratch(p);
#if XFORM == 0
    p.execute_reverse_int(LAG(r2d), a);
#elif XFORM == 1
    p.execute_reverse_torus32(LAG(r2d), (const Torus32 *) a);
#else
    p.execute_direct_torus32((Torus32 *) t2, LAG(ind));
#endif
    for (int i = 0; i < PN; i++) {
#if XFORM == 2
        symx_observe((uint32_t) t1[i]);
        CHECK(t1[i] == t2[i] + CANARY, "C06 execute_direct_torus32: same input, different history of the scratch buffers, same output");
#else
        CHECK(r1d[i] == r2d[i], "C06 execute_reverse_*: same input, different history of the scratch buffers, same output");
#endif
    }
    symx_witness();
}
