/* FFT processor objects of the real back-ends (C16: construction/destruction frees everything; C06: a transform never
 * depends on what an earlier call left in the processor's scratch buffers). Floating-point +,-,*,/ are uninterpreted:
 * these properties are about which cells are allocated, freed, read and written - not about values. */
#include <complex>
#include <cmath>
#include <cassert>
#include <string>
#include <vector>
#include <iostream>
#include "tfhe.h"
#include "polynomials.h"
#define private public          /* harness only: the scratch buffers are private members (standard headers are already included above) */
#include "lagrangehalfc_impl.h"
#undef private
#include "symx.h"
extern "C" void symx_observe(uint64_t);

#ifndef PN
#define PN 16
#endif
#ifndef PROC    /* 0 nayuki, 1 spqlios */
#define PROC 0
#endif
#if PROC == 0
typedef FFT_Processor_nayuki Proc;
#else
typedef FFT_Processor_Spqlios Proc;
#endif

HARNESS(h_processor_lifecycle) {
    {
        Proc p(PN);
        CHECK(p.N == PN && p._2N == 2 * PN && p.Ns2 == PN / 2, "C16 processor dimensions");
    }   /* destructor runs here: with --memory-leak-check every table and buffer must have been freed */
    symx_witness();
}

/* stand-in for a transform kernel that is outside the encoding: an arbitrary (uninterpreted) function of its tag and of ALL
   the cells it is given decides every output cell, so any foreign value in any cell shows in every output. Results are kept
   finite doubles in [16,32) so that the conversions after the transform stay defined; cell i gets its own constant. */
extern "C" uint64_t __CPROVER_uninterpreted_xf(uint64_t tag, uint64_t d, uint64_t c0, uint64_t c1, uint64_t c2, uint64_t c3, uint64_t c4, uint64_t c5, uint64_t c6,
                                               uint64_t c7, uint64_t c8, uint64_t c9, uint64_t c10, uint64_t c11, uint64_t c12, uint64_t c13, uint64_t c14);
static uint64_t bits_fold(uint64_t tag, uint64_t d, const double *data, int n) {
    for (int i = 0; i < n; i += 15) {
        uint64_t c[15];
        for (int k = 0; k < 15; k++) { c[k] = 0; if (i + k < n) __builtin_memcpy(&c[k], &data[i + k], 8); }
        d = __CPROVER_uninterpreted_xf(tag, d, c[0], c[1], c[2], c[3], c[4], c[5], c[6], c[7], c[8], c[9], c[10], c[11], c[12], c[13], c[14]);
    }
    return d;
}
static void bits_spread(double *data, int n, uint64_t d) {
    for (int i = 0; i < n; i++) {
        uint64_t b = (d ^ ((uint64_t) (i + 1) * 0x9E3779B97F4A7C15ULL)) & 0x800FFFFFFFFFFFFFULL | 0x4030000000000000ULL;
        __builtin_memcpy(&data[i], &b, 8);
    }
}
#ifdef CONTRACT
/* CONTRACT: the kernel stand-in records the buffer it is handed and returns arbitrary (recorded) finite values: the wrappers'
   own work - embedding of the input before the transform, extraction and scaling after it - is then decided exactly */
static double in_re[2 * PN], in_im[2 * PN], out_re[2 * PN], out_im[2 * PN];
static int kcalls, kwhich;
static void rec_cells(double *cells, double *in, double *out, int n) {
    for (int i = 0; i < n; i++) {
        in[i] = cells[i];
        double v = nondet_f64(); ASSUME(v > -1048576.0 && v < 1048576.0);
        out[i] = v; cells[i] = v;
    }
}
#endif
#if PROC == 0
/* modular query: the wrappers with the transform replaced by an in-place function of all 2N real and all 2N imaginary cells;
   the transform itself is the subject of h_transform_tables_readonly */
#if STUB_ON(stub_fft_transform) && defined(CONTRACT)
extern "C" void STUBNAME(fft_transform)(const void *tables, double *real, double *imag) { kcalls++; kwhich = 1; rec_cells(real, in_re, out_re, 2 * PN); rec_cells(imag, in_im, out_im, 2 * PN); }
#elif STUB_ON(stub_fft_transform)
extern "C" void STUBNAME(fft_transform)(const void *tables, double *real, double *imag) {
    uint64_t d = bits_fold(1, bits_fold(1, 0, real, 2 * PN), imag, 2 * PN); bits_spread(real, 2 * PN, d); bits_spread(imag, 2 * PN, ~d);
}
#endif
#if STUB_ON(stub_fft_transform_reverse) && defined(CONTRACT)
extern "C" void STUBNAME(fft_transform_reverse)(const void *tables, double *real, double *imag) { kcalls++; kwhich = 2; rec_cells(real, in_re, out_re, 2 * PN); rec_cells(imag, in_im, out_im, 2 * PN); }
#elif STUB_ON(stub_fft_transform_reverse)
extern "C" void STUBNAME(fft_transform_reverse)(const void *tables, double *real, double *imag) {
    uint64_t d = bits_fold(2, bits_fold(2, 0, real, 2 * PN), imag, 2 * PN); bits_spread(real, 2 * PN, d); bits_spread(imag, 2 * PN, ~d);
}
#endif
#endif
#if PROC == 1
/* the hand-written assembly kernels are outside the encoding: an in-place transform that reads every input cell and writes
   every output cell (a chain of uninterpreted operations over all n inputs) */
extern "C" double *fft_table_get_buffer(const void *tables);
#if STUB_ON(stub_fft) && defined(CONTRACT)
extern "C" void STUBNAME(fft)(const void *tables, double *data) { kcalls++; kwhich = 1; rec_cells(data, in_re, out_re, PN); }
#elif STUB_ON(stub_fft)
extern "C" void STUBNAME(fft)(const void *tables, double *data) { bits_spread(data, PN, bits_fold(3, 0, data, PN)); }
#endif
#if STUB_ON(stub_ifft) && defined(CONTRACT)
extern "C" void STUBNAME(ifft)(const void *tables, double *data) { kcalls++; kwhich = 2; rec_cells(data, in_re, out_re, PN); }
#elif STUB_ON(stub_ifft)
extern "C" void STUBNAME(ifft)(const void *tables, double *data) { bits_spread(data, PN, bits_fold(4, 0, data, PN)); }
#endif
#endif

static void havoc_scratch(Proc &p) {
#if PROC == 0
    for (int i = 0; i < 2 * PN; i++) { p.real_inout[i] = nondet_f64(); p.imag_inout[i] = nondet_f64(); }
#else
    for (int i = 0; i < PN; i++) { p.real_inout_direct[i] = nondet_f64(); p.real_inout_rev[i] = nondet_f64(); }
#endif
}

#ifndef XFORM   /* 0 execute_reverse_int, 1 execute_reverse_torus32, 2 execute_direct_torus32 */
#define XFORM 0
#endif
HARNESS(h_history_independent) {
    Proc p(PN);
    int32_t a[PN];
    for (int i = 0; i < PN; i++) a[i] = (int32_t) nondet_u32();
    /* Lagrange-domain input / outputs as raw doubles (N doubles = N/2 complex numbers for nayuki, N reals for spqlios) */
    static double ind[PN], r1d[PN], r2d[PN];
    for (int i = 0; i < PN; i++) { double v = nondet_f64(); ASSUME(v == v); ind[i] = v; r1d[i] = 0; r2d[i] = 0; }
    int32_t t1[PN], t2[PN];
    for (int i = 0; i < PN; i++) { t1[i] = 0; t2[i] = 0; }
#if PROC == 0
#define LAG(x) ((cplx *) (x))
#else
#define LAG(x) (x)
#endif
    /* first call after an arbitrary history (scratch holds anything), second call after another arbitrary history */
    havoc_scratch(p);
#if XFORM == 0
    p.execute_reverse_int(LAG(r1d), a);
#elif XFORM == 1
    p.execute_reverse_torus32(LAG(r1d), (const Torus32 *) a);
#else
    p.execute_direct_torus32((Torus32 *) t1, LAG(ind));
#endif
    havoc_scratch(p);
#if XFORM == 0
    p.execute_reverse_int(LAG(r2d), a);
#elif XFORM == 1
    p.execute_reverse_torus32(LAG(r2d), (const Torus32 *) a);
#else
    p.execute_direct_torus32((Torus32 *) t2, LAG(ind));
#endif
    for (int i = 0; i < PN; i++) {
#if XFORM == 2
        symx_observe((uint32_t) t1[i]);
        CHECK(t1[i] == t2[i] + CANARY, "C06 execute_direct_torus32: same input, different history of the scratch buffers, same output");
#else
        uint64_t b1, b2;
        __builtin_memcpy(&b1, &r1d[i], 8); __builtin_memcpy(&b2, &r2d[i], 8);
        symx_observe(b1);
        CHECK(b1 == b2 + CANARY, "C06 execute_reverse_*: same input, different history of the scratch buffers, same output (bit for bit)");
#endif
    }
    symx_witness();
}

#if PROC == 0
#ifndef DIR
#define DIR 0
#endif
extern "C" {
#include "fft.h"
}
struct FftTablesView { uint64_t n; uint64_t *bit_reversed; double *trig_tables; };   /* layout of the private struct FftTables */
/* the real transform (portable C model of the AVX kernels) only reads the precomputed tables: whatever the data, every table
   cell holds the same bits afterwards, so the tables carry nothing from one call to the next */
HARNESS(h_transform_tables_readonly) {
    Proc p(PN);
    FftTablesView *t = (FftTablesView *) (DIR == 0 ? p.tables_direct : p.tables_reverse);
    const int n2 = 2 * PN, ntrig = (2 * PN - 4) * 2;
    uint64_t br[2 * PN], tr[(2 * PN - 4) * 2 + 1];
    CHECK(t->n == (uint64_t) n2, "C06 table size");
    uint64_t *brp = t->bit_reversed; double *trp = t->trig_tables;
    for (int i = 0; i < n2; i++) br[i] = t->bit_reversed[i];
    for (int i = 0; i < ntrig; i++) __builtin_memcpy(&tr[i], &t->trig_tables[i], 8);
    for (int i = 0; i < n2; i++) { p.real_inout[i] = nondet_f64(); p.imag_inout[i] = nondet_f64(); }
    if (DIR == 0) fft_transform(p.tables_direct, p.real_inout, p.imag_inout);
    else fft_transform_reverse(p.tables_reverse, p.real_inout, p.imag_inout);
    CHECK(t->n == (uint64_t) n2 + CANARY && t->bit_reversed == brp && t->trig_tables == trp, "C06 the transform leaves the table header untouched");
    for (int i = 0; i < n2; i++) CHECK(t->bit_reversed[i] == br[i], "C06 the transform leaves the bit-reversal table untouched");
    for (int i = 0; i < ntrig; i++) { uint64_t b; __builtin_memcpy(&b, &t->trig_tables[i], 8); CHECK(b == tr[i], "C06 the transform leaves the trigonometric table untouched"); }
    symx_witness();
}
#endif

#ifdef CONTRACT
/* what the processor wrappers do around the kernel (guard of assumption A2: the ideal ring back-end stands for "embed, transform,
 * extract"): nayuki embeds p as the 2N-point anticyclic real sequence (p/2 resp. p*2^-33, then its negation, imaginary part 0)
 * and returns the odd-index outputs; the direct transform gets the conjugate-symmetric odd-index spectrum and returns
 * Torus32(int64(re[i]/N*2^32)); spqlios converts the N coefficients to doubles (scale 1 in, 2/N out) and copies. */
HARNESS(h_wrapper_contract) {
    Proc p(PN);
    int32_t a[PN];
    for (int i = 0; i < PN; i++) a[i] = (int32_t) nondet_u32();
    static double ind[PN], rd[PN];
    for (int i = 0; i < PN; i++) { double v = nondet_f64(); ASSUME(v > -1048576.0 && v < 1048576.0); ind[i] = v; rd[i] = 0; }
    int32_t t[PN];
    for (int i = 0; i < PN; i++) t[i] = 0;
    havoc_scratch(p);
    kcalls = 0;
#if XFORM == 0
    p.execute_reverse_int(LAG(rd), a);
#elif XFORM == 1
    p.execute_reverse_torus32(LAG(rd), (const Torus32 *) a);
#else
    p.execute_direct_torus32((Torus32 *) t, LAG(ind));
#endif
    CHECK(kcalls == 1 && kwhich == (XFORM == 2 ? 1 : 2), "C09/A2 exactly one kernel call, of the right direction");
    symx_observe((uint64_t) (uint32_t) t[0]);
#if PROC == 0
    const double sc = XFORM == 0 ? 0.5 : 1.0 / 8589934592.0;
#if XFORM != 2
    for (int i = 0; i < PN; i++) {
        CHECK(in_re[i] == (double) a[i] * sc + CANARY, "C09/A2 nayuki: first half of the transform input is the scaled polynomial");
        CHECK(in_re[PN + i] == -((double) a[i] * sc), "C09/A2 nayuki: second half is the negation of the first (anticyclic extension), for every coefficient value");
    }
    for (int i = 0; i < 2 * PN; i++) CHECK(in_im[i] == 0.0, "C09/A2 nayuki: imaginary input is zero");
    for (int i = 0; i < PN / 2; i++) CHECK(rd[2 * i] == out_re[2 * i + 1] && rd[2 * i + 1] == out_im[2 * i + 1], "C09/A2 nayuki: the result is the odd-index half of the spectrum");
#else
    for (int i = 0; i < PN; i++) CHECK(in_re[2 * i] == 0.0 && in_im[2 * i] == 0.0, "C09/A2 nayuki direct: even-index inputs are zero");
    for (int i = 0; i < PN / 2; i++) {
        CHECK(in_re[2 * i + 1] == ind[2 * i] + CANARY && in_im[2 * i + 1] == ind[2 * i + 1], "C09/A2 nayuki direct: odd-index inputs are the Lagrange coefficients");
        CHECK(in_re[2 * PN - 1 - 2 * i] == ind[2 * i] && in_im[2 * PN - 1 - 2 * i] == -ind[2 * i + 1], "C09/A2 nayuki direct: mirrored inputs are their conjugates");
    }
    const double inv = 1.0 / (double) PN;
    for (int i = 0; i < PN; i++) CHECK(t[i] == (int32_t) (int64_t) (out_re[i] * inv * 4294967296.0), "C09/A2 nayuki direct: result = Torus32(int64(re[i]/N*2^32))");
#endif
#else
#if XFORM != 2
    for (int i = 0; i < PN; i++) CHECK(in_re[i] == (double) a[i] + CANARY, "C09/A2 spqlios: transform input is the coefficient vector converted to double");
    for (int i = 0; i < PN; i++) CHECK(rd[i] == out_re[i], "C09/A2 spqlios: the result is the transform output");
#else
    const double sc = 2.0 / (double) PN;
    for (int i = 0; i < PN; i++) CHECK(in_re[i] == ind[i] * sc + CANARY, "C09/A2 spqlios direct: input scaled by 2/N");
    for (int i = 0; i < PN; i++) CHECK(t[i] == (int32_t) (int64_t) out_re[i], "C09/A2 spqlios direct: result = Torus32(int64(out[i]))");
#endif
#endif
    symx_witness();
}
#endif

/* ---- C06, the per-thread processor: two logical threads call the public transform entry points, which go through the
 * thread_local processor object of the back-end. Under the checker the thread system is emulated: ll2c gives every
 * thread_local variable one slot per logical thread (selected by symx_tid) and inserts symx_yield() before every load, store,
 * call and inline-asm block of the entry points and of execute_*; at any ONE of these points (solver's choice) thread B runs
 * its whole call. That is every schedule of the two calls with at most two context switches. Natively (replay on the real
 * build) the two jobs run on real threads, repeatedly. ---- */
#ifdef THREADS
#ifndef OPA
#define OPA 0
#endif
#ifndef OPB
#define OPB 0
#endif
extern "C" {
uint32_t symx_tid = 0;
void symx_yield(void);
}
struct Job {
    int op;                 /* 0 IntPolynomial_ifft, 1 TorusPolynomial_ifft, 2 TorusPolynomial_fft */
    int32_t in[PN];
    double lag[PN];         /* Lagrange-domain input (op 2) or output (op 0,1): N doubles in both back-ends */
    int32_t out[PN];
};
static void run_job(Job &j, const int op) {
    char pb[sizeof(IntPolynomial)], tb[sizeof(TorusPolynomial)], lb[sizeof(LagrangeHalfCPolynomial_IMPL)];
    LagrangeHalfCPolynomial_IMPL *l = (LagrangeHalfCPolynomial_IMPL *) lb;
    l->coefsC = (decltype(l->coefsC)) j.lag;
    l->proc = 0;
    if (op == 0) {
        IntPolynomial *p = (IntPolynomial *) pb;
        *(int32_t *) &p->N = PN; p->coefs = j.in;
        IntPolynomial_ifft((LagrangeHalfCPolynomial *) l, p);
    } else if (op == 1) {
        TorusPolynomial *t = (TorusPolynomial *) tb;
        *(int32_t *) &t->N = PN; t->coefsT = (Torus32 *) j.in;
        TorusPolynomial_ifft((LagrangeHalfCPolynomial *) l, t);
    } else {
        TorusPolynomial *t = (TorusPolynomial *) tb;
        *(int32_t *) &t->N = PN; t->coefsT = (Torus32 *) j.out;
        TorusPolynomial_fft(t, (const LagrangeHalfCPolynomial *) l);
    }
}
static void fill_job(Job &j, int op) {
    j.op = op;
    for (int i = 0; i < PN; i++) {
        j.in[i] = (int32_t) nondet_u32(); j.out[i] = 0;
        double v = nondet_f64(); ASSUME(v == v && v > -1e9 && v < 1e9); j.lag[i] = op == 2 ? v : 0.0;
    }
}
static int same_job(const Job &a, const Job &b) {
    int ok = 1;
    for (int i = 0; i < PN; i++) {
        uint64_t x, y; __builtin_memcpy(&x, &a.lag[i], 8); __builtin_memcpy(&y, &b.lag[i], 8);
        if (x != y || a.out[i] != b.out[i]) ok = 0;
    }
    return ok;
}
static Job jobA, jobB, refA, refB;
#ifndef SYMX_NATIVE
/* the point at which thread B runs is the SITE-th yield point executed by thread A's call: SITE_LO <= SITE < SITE_HI, chosen by
   the solver (a constant when the range has one element); the queries of a property enumerate the ranges, and the last range
   also decides that thread A's call executes no more than SITE_HI yield points (so the enumeration is complete) */
#ifndef SITE_LO
#define SITE_LO 0
#endif
#ifndef SITE_HI
#define SITE_HI 1
#endif
static int armed, yielded;
static uint32_t site, cnt;
extern "C" void symx_yield(void) {
    if (symx_tid != 0 || !armed) return;
    if (cnt < SITE_LO) { cnt++; return; }      /* decided without the solver: the counter is concrete, only `site` may be symbolic */
    if (cnt++ != site) return;
    yielded = 1;
    symx_tid = 1; run_job(jobB, OPB); symx_tid = 0;      /* thread B runs its whole call here */
}
HARNESS(h_two_threads) {
    symx_run_ctors();      /* dynamic initialisers of namespace-scope objects (none in the unchanged tree: the processor is thread_local, built on first use) */
    fill_job(jobA, OPA); fill_job(jobB, OPB);
    refA = jobA; refB = jobB;
#if SITE_HI == SITE_LO + 1
    site = SITE_LO;
#else
    site = nondet_u32(); ASSUME(site >= SITE_LO && site < SITE_HI);
#endif
    /* sequential reference, each on its own thread (so both threads also have a history) */
    symx_tid = 0; run_job(refA, OPA);
    symx_tid = 1; run_job(refB, OPB);
    symx_tid = 0;
    armed = 1; cnt = 0; run_job(jobA, OPA); armed = 0;
    if (!yielded) { symx_tid = 1; run_job(jobB, OPB); symx_tid = 0; }
    symx_observe((uint32_t) jobA.out[0]);
#ifdef LAST_RANGE
    CHECK(cnt <= SITE_HI, "C06 harness bound: thread A's call executes at most SITE_HI yield points (raise NSITES in props/C06.py)");
#endif
    CHECK(same_job(jobA, refA) + CANARY == 1, "C06 thread A: same output as the sequential reference whatever thread B did in the middle of the call");
    CHECK(same_job(jobB, refB), "C06 thread B: same output as the sequential reference although it ran in the middle of thread A's call");
    symx_witness();
}
#else
#include <thread>
extern "C" void symx_yield(void) {}
HARNESS(h_two_threads) {
    fill_job(jobA, OPA); fill_job(jobB, OPB);
    refA = jobA; refB = jobB;
    run_job(refA, OPA);
    { std::thread t([] { run_job(refB, OPB); }); t.join(); }
    static int badA, badB;
    badA = badB = 0;
    std::thread tb([] { for (int k = 0; k < 20000; k++) { Job j = jobB; run_job(j, OPB); if (!same_job(j, refB)) badB++; } });
    for (int k = 0; k < 20000; k++) { Job j = jobA; run_job(j, OPA); if (!same_job(j, refA)) badA++; }
    tb.join();
    symx_observe((uint32_t) refA.out[0]);
    CHECK((badA == 0) + CANARY == 1, "C06 thread A: same output as the sequential reference whatever thread B did in the middle of the call");
    CHECK(badB == 0, "C06 thread B: same output as the sequential reference although it ran in the middle of thread A's call");
    symx_witness();
}
#endif

/* thread life cycle: the thread that was first to use the FFT ends (its thread_local destructors run, as registered with
 * __cxa_thread_atexit by the compiler's TLS wrapper), then another thread evaluates: no access to anything the first thread
 * released, same output as on any other thread, and after the second thread ends nothing is left allocated. */
#ifndef SYMX_NATIVE
struct AtExit { void (*f)(void *); void *obj; uint32_t tid; };
static AtExit atexit_tab[8];
static int atexit_n;
extern "C" int __cxa_thread_atexit(void (*f)(void *), void *obj, void *dso) {
    if (atexit_n < 8) { atexit_tab[atexit_n].f = f; atexit_tab[atexit_n].obj = obj; atexit_tab[atexit_n].tid = symx_tid; atexit_n++; }
    return 0;
}
static void thread_exit(uint32_t tid) {
    symx_tid = tid;
    for (int i = atexit_n - 1; i >= 0; i--) if (atexit_tab[i].f && atexit_tab[i].tid == tid) { atexit_tab[i].f(atexit_tab[i].obj); atexit_tab[i].f = 0; }
    symx_tid = 0;
}
HARNESS(h_thread_exit) {
    symx_run_ctors();
    fill_job(jobA, OPA); fill_job(jobB, OPB);
    refB = jobB;
    symx_tid = 0; run_job(refB, OPB);          /* reference: the same job on the first thread */
    symx_tid = 0; run_job(jobA, OPA);
    thread_exit(0);
    symx_tid = 1; run_job(jobB, OPB);
    symx_tid = 0;
    symx_observe((uint32_t) jobB.out[0]);
#ifndef NOEQ     /* NOEQ: the variant with the real transform kernel decides memory safety and leaks only (no second copy of the FFT to compare) */
    CHECK(same_job(jobB, refB) + CANARY == 1, "C06 a thread that starts after the first FFT-using thread has ended computes the same output");
#endif
    thread_exit(1);
    symx_witness();
}
#else
HARNESS(h_thread_exit) {
    fill_job(jobA, OPA); fill_job(jobB, OPB);
    refB = jobB;
    { std::thread ta([] { run_job(refB, OPB); run_job(jobA, OPA); }); ta.join(); }
    { std::thread tb([] { run_job(jobB, OPB); }); tb.join(); }
    symx_observe((uint32_t) jobB.out[0]);
    CHECK(same_job(jobB, refB) + CANARY == 1, "C06 a thread that starts after the first FFT-using thread has ended computes the same output");
    symx_witness();
}
#endif
#endif

