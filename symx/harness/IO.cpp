/* C05 / C17 / C18 -- serialisation (tfhe_io.cpp) over the M-IO channel model (models/io_model.*)
 * CBMC route: the real tfhe_io.cpp with the text layer of tfhe_generic_streams.cpp replaced by atomic text records and the
 * transports by an in-memory buffer; native route (validation / replay): the real tfhe_generic_streams.cpp and real streams. */
#include "symx.h"
#include "tfhe.h"
#include "tfhe_io.h"
#include "tfhe_generic_streams.h"
#include "tfhe_gate_bootstrapping_structures.h"
#include "io_model.h"
extern "C" void symx_observe(uint64_t);

#ifndef PLN
#define PLN 2
#endif
#ifndef PN
#define PN 2
#endif
#ifndef PK
#define PK 1
#endif
#ifndef PL
#define PL 2
#endif
#ifndef PBGBIT
#define PBGBIT 4
#endif
#ifndef KT
#define KT 2
#endif
#ifndef KBB
#define KBB 1
#endif
#ifndef CXX        /* 1: C++ stream transport (short read -> failed state), 0: C FILE transport (short read -> abort) */
#define CXX 1
#endif
#ifndef OBJ
#define OBJ 0
#endif
#ifndef REGION
#define REGION 0
#endif
#ifndef NREGIONS
#define NREGIONS 1
#endif

/* the generic-stream level of tfhe_io.cpp (the EXPORTed FILE* / std::stream functions are one-line wrappers around these) */
void write_lweParams(const Ostream &F, const LweParams *lweparams);
LweParams *read_new_lweParams(const Istream &F);
void read_lweSample(const Istream &F, LweSample *sample, const LweParams *params);
void write_lweSample(const Ostream &F, const LweSample *sample, const LweParams *params);
LweKey *read_new_lweKey(const Istream &F, const LweParams *params);
void write_lweKey(const Ostream &F, const LweKey *key, bool output_params);
void write_tLweParams(const Ostream &F, const TLweParams *tlweparams);
TLweParams *read_new_tLweParams(const Istream &F);
void read_tLweSample(const Istream &F, TLweSample *sample, const TLweParams *params);
void write_tLweSample(const Ostream &F, const TLweSample *sample, const TLweParams *params);
TLweKey *read_new_tLweKey(const Istream &F);
void write_tLweKey(const Ostream &F, const TLweKey *key);
void write_tGswParams(const Ostream &F, const TGswParams *tgswparams);
TGswParams *read_new_tGswParams(const Istream &F);
void read_tGswSample(const Istream &F, TGswSample *sample, const TGswParams *params);
void write_tGswSample(const Ostream &F, const TGswSample *sample, const TGswParams *params);
TGswKey *read_new_tGswKey(const Istream &F, const TGswParams *params);
void write_tGswKey(const Ostream &F, const TGswKey *key, bool output_params);
void write_lweKeySwitchKey(const Ostream &F, const LweKeySwitchKey *ks, bool output_LweParams);
LweKeySwitchKey *read_new_lweKeySwitchKey(const Istream &F, const LweParams *out_params);
void write_lweBootstrappingKey(const Ostream &F, const LweBootstrappingKey *bk, bool write_inout_params, bool write_bk_params);
LweBootstrappingKey *read_new_lweBootstrappingKey(const Istream &F, const LweParams *in_out_params, const TGswParams *bk_params);
void write_tfheGateBootstrappingParameters(const Ostream &F, const TFheGateBootstrappingParameterSet *params);
TFheGateBootstrappingParameterSet *read_new_tfheGateBootstrappingParameters(const Istream &F);
TFheGateBootstrappingCloudKeySet *read_new_tfheGateBootstrappingCloudKeySet(const Istream &F, const TFheGateBootstrappingParameterSet *params);
void write_tfheGateBootstrappingCloudKeySet(const Ostream &F, const TFheGateBootstrappingCloudKeySet *key, bool output_gbparams);
TFheGateBootstrappingSecretKeySet *read_new_tfheGateBootstrappingSecretKeySet(const Istream &F, const TFheGateBootstrappingParameterSet *params);
void write_tfheGateBootstrappingSecretKeySet(const Ostream &F, const TFheGateBootstrappingSecretKeySet *key, bool output_gbparams);

/* ---- symbolic objects of tiny dimensions */
/* noise levels: per-query constants NOISE_A/B/C (used round-robin). A symbolic double through the number formatter puts a
   floating-point multiplier into every object query (900 s, no answer); the formatter itself is decided once, for all doubles
   of [1e-12, 0.5], by the scalar query h_double_format below */
#ifndef NOISE_A
#define NOISE_A 0.1
#define NOISE_B 0.3
#define NOISE_C 0.25
#endif
static LweParams *mk_lweparams() { return new_LweParams(PLN, NOISE_A, NOISE_C); }
static TLweParams *mk_tlweparams() { return new_TLweParams(PN, PK, NOISE_B, NOISE_C); }
static void fill_lwe(LweSample *c, int n) { for (int i = 0; i < n; i++) c->a[i] = (Torus32) nondet_u32(); c->b = (Torus32) nondet_u32(); c->current_variance = NOISE_B; }
static void fill_tlwe(TLweSample *c) { for (int i = 0; i <= PK; i++) for (int j = 0; j < PN; j++) c->a[i].coefsT[j] = (Torus32) nondet_u32(); c->current_variance = NOISE_A; }
static bool eq_lweparams(const LweParams *x, const LweParams *y) { return x->n == y->n && x->alpha_min == y->alpha_min && x->alpha_max == y->alpha_max; }
static bool eq_tlweparams(const TLweParams *x, const TLweParams *y) {
    return x->N == y->N && x->k == y->k && x->alpha_min == y->alpha_min && x->alpha_max == y->alpha_max && eq_lweparams(&x->extracted_lweparams, &y->extracted_lweparams);
}
static bool eq_tgswparams(const TGswParams *x, const TGswParams *y) {
    bool ok = x->l == y->l && x->Bgbit == y->Bgbit && x->Bg == y->Bg && x->halfBg == y->halfBg && x->maskMod == y->maskMod && x->kpl == y->kpl && x->offset == y->offset &&
              eq_tlweparams(x->tlwe_params, y->tlwe_params);
    for (int i = 0; i < PL; i++) ok = ok && x->h[i] == y->h[i];
    return ok;
}
static bool eq_lwe(const LweSample *x, const LweSample *y, int n, bool with_var) {
    bool ok = x->b == y->b && (!with_var || x->current_variance == y->current_variance);
    for (int i = 0; i < n; i++) ok = ok && x->a[i] == y->a[i];
    return ok;
}
static bool eq_tlwe(const TLweSample *x, const TLweSample *y, bool with_var) {
    bool ok = !with_var || x->current_variance == y->current_variance;
    for (int i = 0; i <= PK; i++) for (int j = 0; j < PN; j++) ok = ok && x->a[i].coefsT[j] == y->a[i].coefsT[j];
    return ok;
}
struct KeySet {
    LweParams *lp; TLweParams *tp; TGswParams *gp; TFheGateBootstrappingParameterSet *ps;
    LweKey *lk; TGswKey *gk; LweBootstrappingKey *bk; LweBootstrappingKeyFFT *bf; TFheGateBootstrappingSecretKeySet *sk;
};
/* the advisory variance of key rows is stored once, as the maximum over all rows, and comes back on every row.
   VARROWS: every row gets its own arbitrary non-negative variance (a generated key has 0 on its trivial rows h=0 and alpha^2 on
   the others), otherwise all rows carry the same value */
#ifndef VARROWS
#define VARROWS 0
#endif
static double row_variance(double dflt) {
#if VARROWS
    double v = nondet_f64(); ASSUME(v >= 0.0 && v <= 1.0); return v;
#else
    return dflt;
#endif
}
static void fill_ks(LweKeySwitchKey *ks, int nout) {
    const int R = ks->n * ks->t * ks->base;
    for (int r = 0; r < R; r++) { fill_lwe(&ks->ks0_raw[r], nout); ks->ks0_raw[r].current_variance = row_variance(NOISE_A); }
}
static void fill_bk(LweBootstrappingKey *bk) {
    for (int i = 0; i < PLN; i++) for (int p = 0; p < (PK + 1) * PL; p++) { fill_tlwe(&bk->bk[i].all_sample[p]); bk->bk[i].all_sample[p].current_variance = row_variance(NOISE_B); }
    fill_ks(bk->ks, PLN);
}
static void mk_keyset(KeySet &w, bool with_fft) {
    w.lp = mk_lweparams(); w.tp = mk_tlweparams(); w.gp = new_TGswParams(PL, PBGBIT, w.tp);
    w.ps = new TFheGateBootstrappingParameterSet(KT, KBB, w.lp, w.gp);
    w.lk = new_LweKey(w.lp); w.gk = new_TGswKey(w.gp);
    for (int i = 0; i < PLN; i++) w.lk->key[i] = (int32_t) nondet_u32();
    for (int i = 0; i < PK; i++) for (int j = 0; j < PN; j++) w.gk->key[i].coefs[j] = (int32_t) nondet_u32();
    w.bk = new_LweBootstrappingKey(KT, KBB, w.lp, w.gp);
    fill_bk(w.bk);
    w.bf = with_fft ? new_LweBootstrappingKeyFFT(w.bk) : 0;
    w.sk = new TFheGateBootstrappingSecretKeySet(w.ps, w.bk, w.bf, w.lk, w.gk);
}
static bool eq_ks(const LweKeySwitchKey *x, const LweKeySwitchKey *y, int nout) {
    bool ok = x->n == y->n && x->t == y->t && x->basebit == y->basebit && x->base == y->base && eq_lweparams(x->out_params, y->out_params);
    const int R = x->n * x->t * x->base;
    double vmax = 0.0;
    for (int r = 0; r < R; r++) if (x->ks0_raw[r].current_variance > vmax) vmax = x->ks0_raw[r].current_variance;
    for (int r = 0; r < R; r++) ok = ok && eq_lwe(&x->ks0_raw[r], &y->ks0_raw[r], nout, false) && y->ks0_raw[r].current_variance == vmax;
    return ok;
}
static bool eq_bk(const LweBootstrappingKey *x, const LweBootstrappingKey *y) {
    bool ok = eq_lweparams(x->in_out_params, y->in_out_params) && eq_tgswparams(x->bk_params, y->bk_params) && eq_ks(x->ks, y->ks, PLN);
    double vmax = 0.0;
    for (int i = 0; i < PLN; i++) for (int p = 0; p < (PK + 1) * PL; p++) if (x->bk[i].all_sample[p].current_variance > vmax) vmax = x->bk[i].all_sample[p].current_variance;
    for (int i = 0; i < PLN; i++) for (int p = 0; p < (PK + 1) * PL; p++)
        ok = ok && eq_tlwe(&x->bk[i].all_sample[p], &y->bk[i].all_sample[p], false) && y->bk[i].all_sample[p].current_variance == vmax;
    return ok;
}

/* ================================================================== C05: export -> import reproduces the object; re-export is byte-identical */
#define ROUNDTRIP_TAIL(b, b2)                                                                           \
    CHECK(!io_failed(b), "C05 a complete stream is read without error");                               \
    CHECK(io_consumed(b) == io_size(b), "C05 the importer consumes exactly what the exporter wrote"); \
    CHECK(io_equal(b, b2), "C05 re-exporting the imported object yields identical bytes");

HARNESS(h_roundtrip) {
    IoBuf *b = io_new(), *b2 = io_new();
#if OBJ == 0      /* LweParams */
    LweParams *x = mk_lweparams();
    write_lweParams(io_writer(b), x);
    LweParams *y = read_new_lweParams(io_reader(b, io_size(b), CXX));
    CHECK(eq_lweparams(x, y) ^ (CANARY != 0), "C05 LweParams round trip (n, alpha_min, alpha_max)");
    write_lweParams(io_writer(b2), y);
#elif OBJ == 1    /* TLweParams */
    TLweParams *x = mk_tlweparams();
    write_tLweParams(io_writer(b), x);
    TLweParams *y = read_new_tLweParams(io_reader(b, io_size(b), CXX));
    CHECK(eq_tlweparams(x, y), "C05 TLweParams round trip (N, k, noise levels, extracted parameters)");
    write_tLweParams(io_writer(b2), y);
#elif OBJ == 2    /* TGswParams */
    TLweParams *tp = mk_tlweparams();
    TGswParams *x = new_TGswParams(PL, PBGBIT, tp);
    write_tGswParams(io_writer(b), x);
    TGswParams *y = read_new_tGswParams(io_reader(b, io_size(b), CXX));
    CHECK(eq_tgswparams(x, y), "C05 TGswParams round trip (l, Bgbit, derived fields, TLWE parameters)");
    write_tGswParams(io_writer(b2), y);
#elif OBJ == 3    /* LweSample (also the gate ciphertext format) */
    LweParams *lp = new_LweParams(PLN, 0.1, 0.3);
    LweSample *x = new_LweSample(lp), *y = new_LweSample(lp);
    fill_lwe(x, PLN);
    write_lweSample(io_writer(b), x, lp);
    read_lweSample(io_reader(b, io_size(b), CXX), y, lp);
    CHECK(eq_lwe(x, y, PLN, true) ^ (CANARY != 0), "C05 LweSample round trip (mask, body, variance)");
    write_lweSample(io_writer(b2), y, lp);
#elif OBJ == 4    /* LweKey with parameters */
    LweParams *lp = mk_lweparams();
    LweKey *x = new_LweKey(lp);
    for (int i = 0; i < PLN; i++) x->key[i] = (int32_t) nondet_u32();
    write_lweKey(io_writer(b), x, true);
    LweKey *y = read_new_lweKey(io_reader(b, io_size(b), CXX), 0);
    bool ok = eq_lweparams(x->params, y->params);
    for (int i = 0; i < PLN; i++) ok = ok && x->key[i] == y->key[i];
    CHECK(ok, "C05 LweKey round trip (parameters + coefficients)");
    write_lweKey(io_writer(b2), y, true);
#elif OBJ == 5    /* TLweSample */
    TLweParams *tp = new_TLweParams(PN, PK, 0.1, 0.3);
    TLweSample *x = new_TLweSample(tp), *y = new_TLweSample(tp);
    fill_tlwe(x);
    write_tLweSample(io_writer(b), x, tp);
    read_tLweSample(io_reader(b, io_size(b), CXX), y, tp);
    CHECK(eq_tlwe(x, y, true), "C05 TLweSample round trip");
    write_tLweSample(io_writer(b2), y, tp);
#elif OBJ == 6    /* TLweKey */
    TLweParams *tp = mk_tlweparams();
    TLweKey *x = new_TLweKey(tp);
    for (int i = 0; i < PK; i++) for (int j = 0; j < PN; j++) x->key[i].coefs[j] = (int32_t) nondet_u32();
    write_tLweKey(io_writer(b), x);
    TLweKey *y = read_new_tLweKey(io_reader(b, io_size(b), CXX));
    bool ok = eq_tlweparams(x->params, y->params);
    for (int i = 0; i < PK; i++) for (int j = 0; j < PN; j++) ok = ok && x->key[i].coefs[j] == y->key[i].coefs[j];
    CHECK(ok, "C05 TLweKey round trip");
    write_tLweKey(io_writer(b2), y);
#elif OBJ == 7    /* TGswSample */
    TLweParams *tp = new_TLweParams(PN, PK, 0.1, 0.3);
    TGswParams *gp = new_TGswParams(PL, PBGBIT, tp);
    TGswSample *x = new_TGswSample(gp), *y = new_TGswSample(gp);
    for (int p = 0; p < (PK + 1) * PL; p++) fill_tlwe(&x->all_sample[p]);
    write_tGswSample(io_writer(b), x, gp);
    read_tGswSample(io_reader(b, io_size(b), CXX), y, gp);
    bool ok = true;
    for (int p = 0; p < (PK + 1) * PL; p++) ok = ok && eq_tlwe(&x->all_sample[p], &y->all_sample[p], true);
    CHECK(ok, "C05 TGswSample round trip (every row)");
    write_tGswSample(io_writer(b2), y, gp);
#elif OBJ == 8    /* TGswKey with parameters */
    TLweParams *tp = mk_tlweparams();
    TGswParams *gp = new_TGswParams(PL, PBGBIT, tp);
    TGswKey *x = new_TGswKey(gp);
    for (int i = 0; i < PK; i++) for (int j = 0; j < PN; j++) x->key[i].coefs[j] = (int32_t) nondet_u32();
    write_tGswKey(io_writer(b), x, true);
    TGswKey *y = read_new_tGswKey(io_reader(b, io_size(b), CXX), 0);
    bool ok = eq_tgswparams(x->params, y->params);
    for (int i = 0; i < PK; i++) for (int j = 0; j < PN; j++) ok = ok && x->key[i].coefs[j] == y->key[i].coefs[j];
    CHECK(ok && y->key == y->tlwe_key.key, "C05 TGswKey round trip");
    write_tGswKey(io_writer(b2), y, true);
#elif OBJ == 9    /* LweKeySwitchKey with parameters */
    LweParams *lp = mk_lweparams();
    LweKeySwitchKey *x = new_LweKeySwitchKey(PK * PN, KT, KBB, lp);
    fill_ks(x, PLN);
    write_lweKeySwitchKey(io_writer(b), x, true);
    LweKeySwitchKey *y = read_new_lweKeySwitchKey(io_reader(b, io_size(b), CXX), 0);
    CHECK(eq_ks(x, y, PLN), "C05 LweKeySwitchKey round trip (shape, every row, common variance)");
    write_lweKeySwitchKey(io_writer(b2), y, true);
#elif OBJ == 10   /* LweBootstrappingKey with parameters */
    KeySet w; mk_keyset(w, false);
    write_lweBootstrappingKey(io_writer(b), w.bk, true, true);
    LweBootstrappingKey *y = read_new_lweBootstrappingKey(io_reader(b, io_size(b), CXX), 0, 0);
    CHECK(eq_bk(w.bk, y), "C05 LweBootstrappingKey round trip (parameters, key-switching rows, TGSW rows)");
    write_lweBootstrappingKey(io_writer(b2), y, true, true);
#elif OBJ == 11   /* gate bootstrapping parameter set */
    LweParams *lp = mk_lweparams(); TLweParams *tp = mk_tlweparams(); TGswParams *gp = new_TGswParams(PL, PBGBIT, tp);
    TFheGateBootstrappingParameterSet *x = new TFheGateBootstrappingParameterSet(KT, KBB, lp, gp);
    write_tfheGateBootstrappingParameters(io_writer(b), x);
    TFheGateBootstrappingParameterSet *y = read_new_tfheGateBootstrappingParameters(io_reader(b, io_size(b), CXX));
    CHECK(x->ks_t == y->ks_t && x->ks_basebit == y->ks_basebit && eq_lweparams(x->in_out_params, y->in_out_params) && eq_tgswparams(x->tgsw_params, y->tgsw_params),
          "C05 gate bootstrapping parameter set round trip");
    write_tfheGateBootstrappingParameters(io_writer(b2), y);
#elif OBJ == 12   /* cloud key set */
    KeySet w; mk_keyset(w, true);
    write_tfheGateBootstrappingCloudKeySet(io_writer(b), &w.sk->cloud, true);
    TFheGateBootstrappingCloudKeySet *y = read_new_tfheGateBootstrappingCloudKeySet(io_reader(b, io_size(b), CXX), 0);
    CHECK(eq_bk(w.bk, y->bk) && y->params->ks_t == KT && y->params->ks_basebit == KBB && y->bkFFT != 0 && y->bkFFT->ks != 0, "C05 cloud key set round trip (FFT image rebuilt on import)");
    write_tfheGateBootstrappingCloudKeySet(io_writer(b2), y, true);
#else             /* secret key set */
    KeySet w; mk_keyset(w, true);
    write_tfheGateBootstrappingSecretKeySet(io_writer(b), w.sk, true);
    TFheGateBootstrappingSecretKeySet *y = read_new_tfheGateBootstrappingSecretKeySet(io_reader(b, io_size(b), CXX), 0);
    bool ok = eq_bk(w.bk, y->cloud.bk);
    for (int i = 0; i < PLN; i++) ok = ok && w.lk->key[i] == y->lwe_key->key[i];
    for (int i = 0; i < PK; i++) for (int j = 0; j < PN; j++) ok = ok && w.gk->key[i].coefs[j] == y->tgsw_key->key[i].coefs[j];
    CHECK(ok && y->lwe_key->params == y->params->in_out_params && y->tgsw_key->params == y->params->tgsw_params, "C05 secret key set round trip");
    write_tfheGateBootstrappingSecretKeySet(io_writer(b2), y, true);
#endif
    ROUNDTRIP_TAIL(b, b2)
    symx_witness();
}

/* the number formatter alone: a double written as a text property and parsed back is the same double, for every noise level */
HARNESS(h_double_format) {
    IoBuf *b = io_new();
    double a = nondet_f64();
    ASSUME(a >= 1e-12 && a <= 0.5);
    LweParams *x = new_LweParams(PLN, a, 0.25);
    write_lweParams(io_writer(b), x);
    LweParams *y = read_new_lweParams(io_reader(b, io_size(b), CXX));
    symx_observe(y->alpha_min == a);
    CHECK((y->alpha_min == a) ^ (CANARY != 0), "C05 a real-valued noise parameter survives export/import exactly");
    symx_witness();
}

/* several objects back to back in one stream */
HARNESS(h_concat) {
    IoBuf *b = io_new();
    LweParams *p1 = mk_lweparams();
    TLweParams *tp = mk_tlweparams();
    TGswParams *gp = new_TGswParams(PL, PBGBIT, tp);
    LweKey *k = new_LweKey(p1);
    for (int i = 0; i < PLN; i++) k->key[i] = (int32_t) nondet_u32();
    LweSample *c = new_LweSample(p1), *c2 = new_LweSample(p1);
    fill_lwe(c, PLN);
    write_lweKey(io_writer(b), k, true);
    write_lweSample(io_writer(b), c, p1);
    write_tGswParams(io_writer(b), gp);
    write_lweSample(io_writer(b), c, p1);
    const Istream &in = io_reader(b, io_size(b), CXX);
    LweKey *k2 = read_new_lweKey(in, 0);
    read_lweSample(in, c2, p1);
    TGswParams *gp2 = read_new_tGswParams(in);
    bool ok = eq_lweparams(k->params, k2->params) && eq_lwe(c, c2, PLN, true) && eq_tgswparams(gp, gp2);
    for (int i = 0; i < PLN; i++) ok = ok && k->key[i] == k2->key[i];
    read_lweSample(in, c2, p1);
    CHECK((ok && eq_lwe(c, c2, PLN, true)) ^ (CANARY != 0), "C05 objects written back to back are read back in order, each intact");
    CHECK(!io_failed(b) && io_consumed(b) == io_size(b), "C05 concatenated stream fully and cleanly consumed");
    symx_witness();
}

/* ================================================================== C17: the cloud key export holds only public material */
HARNESS(h_cloud_public) {
    KeySet w; mk_keyset(w, true);
    IoBuf *bc = io_new(), *bs = io_new(), *bc2 = io_new();
    io_watch(bc, w.lk->key, sizeof(int32_t) * PLN);
    write_tfheGateBootstrappingCloudKeySet(io_writer(bc), &w.sk->cloud, true);
    CHECK(!io_watch_hit(bc), "C17 the cloud export never writes from the LWE secret key storage");
    write_tfheGateBootstrappingSecretKeySet(io_writer(bs), w.sk, true);
    CHECK(io_is_prefix(bc, bs) && io_size(bc) + CANARY * io_size(bs) < io_size(bs), "C17 the cloud export is a strict prefix of the secret export of the same keys");
#ifndef SYMX_NATIVE
    /* size determined by the parameters: 5 text sections (gate params, LWE params, TLWE params, TGSW params, key-switch params)
       + key-switching content + bootstrapping content */
    const size_t ks_bytes = 4 + 8 + (size_t) (PK * PN) * KT * (1 << KBB) * (PLN + 1) * 4;
    const size_t bk_bytes = 4 + 8 + (size_t) PLN * (PK + 1) * PL * (PK + 1) * PN * 4;
    CHECK(io_records(bc) == 5 && io_binary_bytes(bc) == ks_bytes + bk_bytes, "C17 cloud export size = parameter sections + key-switching rows + bootstrapping rows");
    CHECK(io_records(bs) == 5 && io_binary_bytes(bs) == ks_bytes + bk_bytes + (4 + 4 * PLN) + (4 + 4 * PK * PN), "C17 secret export = cloud export + LWE key section + ring key section");
#else
    /* natively the byte counts are those of the real text layer; the section count is checked on the real text */
    CHECK(io_records(bc) == 5, "C17 cloud export has 5 text sections");
    CHECK(io_records(bs) == 5, "C17 secret export has 5 text sections");
#endif
    /* non-interference: change both secrets, keep the public part: identical cloud bytes */
    for (int i = 0; i < PLN; i++) w.lk->key[i] = (int32_t) nondet_u32();
    for (int i = 0; i < PK; i++) for (int j = 0; j < PN; j++) w.gk->key[i].coefs[j] = (int32_t) nondet_u32();
    write_tfheGateBootstrappingCloudKeySet(io_writer(bc2), &w.sk->cloud, true);
    CHECK(io_equal(bc, bc2), "C17 cloud export does not depend on the secret keys");
    /* importing the cloud stream needs no secret material and consumes all of it */
    TFheGateBootstrappingCloudKeySet *y = read_new_tfheGateBootstrappingCloudKeySet(io_reader(bc, io_size(bc), CXX), 0);
    CHECK(!io_failed(bc) && io_consumed(bc) == io_size(bc) && y->bk != 0 && y->bkFFT != 0, "C17 the cloud stream alone imports cleanly");
    symx_witness();
}

/* ================================================================== the EXPORTed FILE* / std::stream API is a faithful wrapper
   of the generic-stream level used above: same bytes, in any sequence of calls (no state carried from one export to the next),
   and the exported importers give the same objects */
HARNESS(h_export_api) {
    KeySet w; mk_keyset(w, true);
    IoBuf *ref_s = io_new(), *ref_c = io_new(), *ref_p = io_new(), *ref_k = io_new();
    write_tfheGateBootstrappingSecretKeySet(io_writer(ref_s), w.sk, true);
    write_tfheGateBootstrappingCloudKeySet(io_writer(ref_c), &w.sk->cloud, true);
    write_tfheGateBootstrappingParameters(io_writer(ref_p), w.ps);
    write_lweKey(io_writer(ref_k), w.lk, true);
    IoBuf *s = io_new(), *c = io_new(), *p = io_new(), *k = io_new(), *c2 = io_new();
    /* the order matters: secret key set first, then the cloud key set, then smaller objects (the tutorial flow) */
#if CXX
    export_tfheGateBootstrappingSecretKeySet_toStream(io_ostream(s), w.sk);
    export_tfheGateBootstrappingCloudKeySet_toStream(io_ostream(c), &w.sk->cloud);
    export_tfheGateBootstrappingParameterSet_toStream(io_ostream(p), w.ps);
    export_lweKey_toStream(io_ostream(k), w.lk);
    export_tfheGateBootstrappingCloudKeySet_toStream(io_ostream(c2), &w.sk->cloud);
#else
    export_tfheGateBootstrappingSecretKeySet_toFile(io_file(s), w.sk);
    export_tfheGateBootstrappingCloudKeySet_toFile(io_file(c), &w.sk->cloud);
    export_tfheGateBootstrappingParameterSet_toFile(io_file(p), w.ps);
    export_lweKey_toFile(io_file(k), w.lk);
    export_tfheGateBootstrappingCloudKeySet_toFile(io_file(c2), &w.sk->cloud);
#endif
    CHECK(io_equal(s, ref_s), "C05/C17 exported secret key set = generic-stream bytes");
    CHECK(io_equal(c, ref_c) ^ (CANARY != 0), "C17 cloud key set exported after the secret key set has exactly the cloud bytes (nothing left over from the previous export)");
    CHECK(io_equal(p, ref_p) && io_equal(k, ref_k), "C05 exported parameter set / LWE key = generic-stream bytes");
    CHECK(io_equal(c2, ref_c), "C17 a second cloud export is byte-identical to the first");
    io_open_read(c, CXX);
#if CXX
    TFheGateBootstrappingCloudKeySet *y = new_tfheGateBootstrappingCloudKeySet_fromStream(io_istream(c));
#else
    TFheGateBootstrappingCloudKeySet *y = new_tfheGateBootstrappingCloudKeySet_fromFile(io_file(c));
#endif
    CHECK(eq_bk(w.bk, y->bk) && !io_failed(c) && io_consumed(c) == io_size(c), "C05 the exported importer reads the cloud key set back");
    io_open_read(k, CXX);
#if CXX
    LweKey *k2 = new_lweKey_fromStream(io_istream(k));
#else
    LweKey *k2 = new_lweKey_fromFile(io_file(k));
#endif
    bool ok = eq_lweparams(k2->params, w.lp);
    for (int i = 0; i < PLN; i++) ok = ok && k2->key[i] == w.lk->key[i];
    CHECK(ok, "C05 the exported importer reads the LWE key back");
    symx_witness();
}

/* ================================================================== C18: a proper prefix is never accepted silently */
#define AFTER_IMPORT(b) CHECK(CXX && io_failed(b), "C18 import of a truncated / mistyped stream returned normally with a clean stream (it must terminate or leave the C++ stream failed)")

HARNESS(h_truncated) {
    IoBuf *b = io_new();
    /* export one object, cut the stream at a symbolic offset < total, import */
#if OBJ == 0
    LweParams *x = mk_lweparams(); write_lweParams(io_writer(b), x);
#elif OBJ == 3
    LweParams *lp = new_LweParams(PLN, 0.1, 0.3); LweSample *x = new_LweSample(lp), *y = new_LweSample(lp); fill_lwe(x, PLN); write_lweSample(io_writer(b), x, lp);
#elif OBJ == 4
    LweParams *lp = mk_lweparams(); LweKey *x = new_LweKey(lp); for (int i = 0; i < PLN; i++) x->key[i] = (int32_t) nondet_u32(); write_lweKey(io_writer(b), x, true);
#elif OBJ == 5
    TLweParams *tp = new_TLweParams(PN, PK, 0.1, 0.3); TLweSample *x = new_TLweSample(tp), *y = new_TLweSample(tp); fill_tlwe(x); write_tLweSample(io_writer(b), x, tp);
#elif OBJ == 6
    TLweParams *tp = mk_tlweparams(); TLweKey *x = new_TLweKey(tp); for (int j = 0; j < PN; j++) x->key[0].coefs[j] = 1; write_tLweKey(io_writer(b), x);
#elif OBJ == 2
    TLweParams *tp = mk_tlweparams(); TGswParams *x = new_TGswParams(PL, PBGBIT, tp); write_tGswParams(io_writer(b), x);
#elif OBJ == 7
    TLweParams *tp = new_TLweParams(PN, PK, 0.1, 0.3); TGswParams *gp = new_TGswParams(PL, PBGBIT, tp); TGswSample *x = new_TGswSample(gp), *y = new_TGswSample(gp);
    for (int p = 0; p < (PK + 1) * PL; p++) fill_tlwe(&x->all_sample[p]);
    write_tGswSample(io_writer(b), x, gp);
#elif OBJ == 8
    TLweParams *tp = mk_tlweparams(); TGswParams *gp = new_TGswParams(PL, PBGBIT, tp); TGswKey *x = new_TGswKey(gp); for (int j = 0; j < PN; j++) x->key[0].coefs[j] = 1; write_tGswKey(io_writer(b), x, true);
#elif OBJ == 9
    LweParams *lp = mk_lweparams(); LweKeySwitchKey *x = new_LweKeySwitchKey(PK * PN, KT, KBB, lp); fill_ks(x, PLN); write_lweKeySwitchKey(io_writer(b), x, true);
#elif OBJ == 10
    KeySet w; mk_keyset(w, false); write_lweBootstrappingKey(io_writer(b), w.bk, true, true);
#elif OBJ == 11
    LweParams *lp = mk_lweparams(); TLweParams *tp = mk_tlweparams(); TGswParams *gp = new_TGswParams(PL, PBGBIT, tp);
    TFheGateBootstrappingParameterSet *x = new TFheGateBootstrappingParameterSet(KT, KBB, lp, gp); write_tfheGateBootstrappingParameters(io_writer(b), x);
#elif OBJ == 12
    KeySet w; mk_keyset(w, true); write_tfheGateBootstrappingCloudKeySet(io_writer(b), &w.sk->cloud, true);
#else
    KeySet w; mk_keyset(w, true); write_tfheGateBootstrappingSecretKeySet(io_writer(b), w.sk, true);
#endif
    /* crash point = (region REGION of the export, symbolic offset inside it); the driver enumerates every region */
    CHECK(io_regions(b) == NREGIONS, "C18 harness: the export has as many regions as the driver enumerates");
    size_t d = (size_t) nondet_u32();
    symx_observe(d);
#if CANARY
    const Istream &in = io_reader(b, io_size(b), CXX);       /* canary: the complete stream does come back cleanly */
#else
    const Istream &in = io_reader_region(b, REGION, d, CXX);
#endif
#if OBJ == 0
    read_new_lweParams(in);
#elif OBJ == 3
    read_lweSample(in, y, lp);
#elif OBJ == 4
    read_new_lweKey(in, 0);
#elif OBJ == 5
    read_tLweSample(in, y, tp);
#elif OBJ == 6
    read_new_tLweKey(in);
#elif OBJ == 2
    read_new_tGswParams(in);
#elif OBJ == 7
    read_tGswSample(in, y, gp);
#elif OBJ == 8
    read_new_tGswKey(in, 0);
#elif OBJ == 9
    read_new_lweKeySwitchKey(in, 0);
#elif OBJ == 10
    read_new_lweBootstrappingKey(in, 0, 0);
#elif OBJ == 11
    read_new_tfheGateBootstrappingParameters(in);
#elif OBJ == 12
    read_new_tfheGateBootstrappingCloudKeySet(in, 0);
#else
    read_new_tfheGateBootstrappingSecretKeySet(in, 0);
#endif
    AFTER_IMPORT(b);
    symx_witness();
}

/* type confusion: a complete stream of one type fed to the importer of another type, and corrupted binary type tags */
#ifndef WRONG
#define WRONG 0
#endif
HARNESS(h_mistyped) {
    IoBuf *b = io_new();
    LweParams *lp = mk_lweparams();
    TLweParams *tp = mk_tlweparams();
    TGswParams *gp = new_TGswParams(PL, PBGBIT, tp);
    LweSample *c = new_LweSample(lp), *c2 = new_LweSample(lp);
    fill_lwe(c, PLN);
    TLweSample *tc = new_TLweSample(tp), *tc2 = new_TLweSample(tp);
    fill_tlwe(tc);
    LweKey *k = new_LweKey(lp);
    for (int i = 0; i < PLN; i++) k->key[i] = (int32_t) nondet_u32();
#if WRONG == 0      /* TLWE parameter section read as LWE parameters */
    write_tLweParams(io_writer(b), tp);
    read_new_lweParams(io_reader(b, io_size(b), CXX));
#elif WRONG == 1    /* LWE parameters read as TLWE parameters */
    write_lweParams(io_writer(b), lp);
    read_new_tLweParams(io_reader(b, io_size(b), CXX));
#elif WRONG == 2    /* LWE key content read as an LWE sample (same length, different tag) */
    write_lweKey(io_writer(b), k, false);
    write_lweSample(io_writer(b), c, lp);
    read_lweSample(io_reader(b, io_size(b), CXX), c2, lp);
#elif WRONG == 3    /* TLWE sample read as LWE sample */
    write_tLweSample(io_writer(b), tc, tp);
    write_tLweSample(io_writer(b), tc, tp);
    read_lweSample(io_reader(b, io_size(b), CXX), c2, lp);
#elif WRONG == 4    /* LWE sample(s) read as TLWE sample */
    write_lweSample(io_writer(b), c, lp); write_lweSample(io_writer(b), c, lp); write_lweSample(io_writer(b), c, lp);
    read_tLweSample(io_reader(b, io_size(b), CXX), tc2, tp);
#elif WRONG == 5    /* LWE key stream read as TGSW key */
    write_lweKey(io_writer(b), k, true);
    read_new_tGswKey(io_reader(b, io_size(b), CXX), 0);
#elif WRONG == 6    /* gate parameter set read as TGSW parameters */
    { TFheGateBootstrappingParameterSet *ps = new TFheGateBootstrappingParameterSet(KT, KBB, lp, gp); write_tfheGateBootstrappingParameters(io_writer(b), ps); }
    read_new_tGswParams(io_reader(b, io_size(b), CXX));
#elif WRONG == 7    /* LWE sample stream read as LWE key content (with given parameters) */
    write_lweSample(io_writer(b), c, lp);
    read_new_lweKey(io_reader(b, io_size(b), CXX), lp);
#else               /* canary: a well-typed stream does come back */
    write_lweParams(io_writer(b), lp);
    read_new_lweParams(io_reader(b, io_size(b), CXX));
#endif
    CHECK(false, "C18 a stream of the wrong type was imported without termination");
}
HARNESS(h_mistyped_reach) { /* the matching well-typed import does return (the previous harness is not vacuous) */
    IoBuf *b = io_new();
    LweParams *lp = mk_lweparams();
    write_lweParams(io_writer(b), lp);
    read_new_lweParams(io_reader(b, io_size(b), CXX));
    symx_witness();
}
