#!/usr/bin/env python3
"""symx engine: /repo sources -> LLVM IR -> C (ll2c) -> CBMC portfolio -> verdict, witness, canary,
translator validation, replay against the real sources, evidence file."""
import os, sys, re, json, time, shutil, signal, subprocess, tempfile, hashlib, atexit, traceback
from concurrent.futures import ProcessPoolExecutor, ThreadPoolExecutor, as_completed

HERE = os.path.dirname(os.path.abspath(__file__))
VERIF = os.path.dirname(HERE)
REPO = os.environ.get('SYMX_REPO', '/repo')
SRC = os.path.join(REPO, 'src')
LIB = os.path.join(SRC, 'libtfhe')
sys.path.insert(0, HERE)
import ll2c  # noqa

CLANG = 'clang++-14'
CLANGC = 'clang-14'
LLVM_LINK = 'llvm-link-14'
NCPU = int(os.environ.get('SYMX_JOBS', os.cpu_count() or 4))

BASE_FLAGS = ['-std=gnu++11', '-O1', '-fno-vectorize', '-fno-slp-vectorize', '-fno-unroll-loops',
              '-I' + os.path.join(SRC, 'include'), '-I' + os.path.join(HERE, 'include'), '-I' + os.path.join(HERE, 'models'),
              '-Wno-everything']
LOWERING = {
    'scalar': [],  # code path of the `debug` build: no AVX2 inline asm, assert() active
    'avx2': ['-mavx2', '-mfma', '-DNDEBUG'],  # code path of the `optim` build (-march=native on AVX2 hosts)
    # same code path as `scalar`, calls kept out of line so that a callee can be replaced by its contract (modular queries)
    'scalar-noinline': ['-fno-inline'],
    # scalar code path with assert() compiled out, as in the optim/release builds (-DNDEBUG) on a host without AVX2
    'scalar-ndebug': ['-DNDEBUG'],
    # AVX2 code path (#ifdef __AVX2__ branches, inline asm) with calls kept out of line for modular queries
    'avx2-noinline': ['-mavx2', '-mfma', '-DNDEBUG', '-fno-inline'],
}
HOOK_DEFINE = '-DTFHE_VERIF'


class Query:
    def __init__(self, key, harness, entry, defines=None, lowering='scalar', libs=(), models=(), stubs=None,
                 unwind=8, backends=('minisat', 'kissat', 'cvc5int'), cap=120, expect='pass', abort_fails=False,
                 extra=(), validate=False, witness=True, canary_of=None, externs=(), noops=(), sample=None,
                 unwindset=(), native_sweep=200, object_bits=14, cflags=(), leak=False, finding_key=None, fp_uf=False, mdefs=None, native_libs=(), native_probe=False, libdefs=None, tls_slots=1, yield_in=None, libsubst=None):
        self.native_probe = native_probe
        self.native_libs = list(native_libs)
        self.fp_uf = fp_uf
        self.mdefs = dict(mdefs or {})
        self.key = key
        self.harness = harness
        self.entry = entry
        self.defines = dict(defines or {})
        self.lowering = lowering
        self.libs = list(libs)
        self.models = list(models)
        self.stubs = dict(stubs or {})
        self.unwind = unwind
        self.unwindset = list(unwindset)
        self.backends = list(backends)
        self.cap = cap
        self.expect = expect
        self.abort_fails = abort_fails
        self.extra = list(extra)
        self.validate = validate
        self.witness = witness
        self.canary_of = canary_of
        self.externs = list(externs)
        self.noops = list(noops)
        self.sample = sample
        self.native_sweep = native_sweep
        self.object_bits = object_bits
        self.cflags = list(cflags)
        self.libdefs = dict(libdefs or {})
        self.libsubst = dict(libsubst or {})   # basename of a library source -> [(regex, replacement)]: bounded-size variant of the real source
        self.tls_slots = tls_slots
        self.yield_in = yield_in
        self.leak = leak
        self.finding_key = finding_key or key

    def slug(self):
        return re.sub(r'[^A-Za-z0-9_.=-]', '_', self.key)[:100] + '_' + hashlib.md5(self.key.encode()).hexdigest()[:6]


import ctypes
_libc = ctypes.CDLL('libc.so.6', use_errno=True)


def _pdeathsig():
    # die with the parent: a killed check must not leave solver processes behind
    _libc.prctl(1, signal.SIGKILL)


def _solver_preexec():
    os.setsid()
    _libc.prctl(1, signal.SIGKILL)


def _vmhwm_kb(pid):
    try:
        for line in open('/proc/%d/status' % pid):
            if line.startswith('VmHWM:'):
                return int(line.split()[1])
    except Exception:
        pass
    return 0


def run(cmd, **kw):
    return subprocess.run(cmd, stdout=subprocess.PIPE, stderr=subprocess.PIPE, universal_newlines=True, **kw)


def must(cmd, **kw):
    r = run(cmd, **kw)
    if r.returncode != 0:
        raise RuntimeError('command failed: %s\n%s\n%s' % (' '.join(cmd), r.stdout[-3000:], r.stderr[-3000:]))
    return r


def src_path(p):
    """library source given relative to src/libtfhe, or model given relative to symx/models"""
    if os.path.isabs(p):
        return p
    q = os.path.join(LIB, p)
    if os.path.exists(q):
        return q
    q = os.path.join(HERE, 'models', p)
    if os.path.exists(q):
        return q
    q = os.path.join(HERE, p)
    if os.path.exists(q):
        return q
    raise FileNotFoundError(p)


def is_c(path):
    return path.endswith('.c')


def dflags(defines):
    return ['-D%s=%s' % (k, v) for k, v in sorted(defines.items())]


def subst_source(work, path, q):
    """library source with the query's textual size substitutions applied (a copy next to the work dir; includes still resolve to the
    original directory). A substitution that does not match is an error: the source no longer has the shape the bound was stated for."""
    rules = q.libsubst.get(os.path.basename(path))
    if not rules:
        return path, ()
    text = open(path).read()
    for rx, rep in rules:
        text, n = re.subn(rx, rep, text)
        if n != 1:
            raise RuntimeError('libsubst: %r matches %d times in %s' % (rx, n, path))
    d = os.path.join(work, 'subst', hashlib.md5((path + repr(rules)).encode()).hexdigest()[:8])
    os.makedirs(d, exist_ok=True)
    out = os.path.join(d, os.path.basename(path))
    tmp = out + '.tmp%d' % os.getpid()
    open(tmp, 'w').write(text)
    os.rename(tmp, out)
    return out, ('-I' + os.path.dirname(path),)


def compile_ll(work, path, lowering, defines=None, extra=()):
    """path -> .ll (cached in work dir by content of command)"""
    cmd_id = hashlib.md5(('%s|%s|%s|%s' % (path, lowering, sorted((defines or {}).items()), extra)).encode()).hexdigest()[:10]
    out = os.path.join(work, 'll', os.path.basename(path) + '.' + cmd_id + '.ll')
    if os.path.exists(out):
        return out
    os.makedirs(os.path.dirname(out), exist_ok=True)
    if is_c(path):
        cmd = [CLANGC, '-std=gnu99', '-O1', '-fno-vectorize', '-fno-slp-vectorize', '-fno-unroll-loops',
               '-Wno-everything'] + LOWERING[lowering]
    else:
        cmd = [CLANG] + BASE_FLAGS + LOWERING[lowering]
    cmd += [HOOK_DEFINE] + dflags(defines or {}) + list(extra) + ['-S', '-emit-llvm', path, '-o', out + '.tmp%d' % os.getpid()]
    must(cmd)
    os.rename(out + '.tmp%d' % os.getpid(), out)
    return out


def compile_obj(work, path, lowering, defines=None, extra=(), tag=''):
    cmd_id = hashlib.md5(('%s|%s|%s|%s|%s' % (path, lowering, sorted((defines or {}).items()), extra, tag)).encode()).hexdigest()[:10]
    out = os.path.join(work, 'obj', os.path.basename(path) + '.' + cmd_id + '.o')
    if os.path.exists(out):
        return out
    os.makedirs(os.path.dirname(out), exist_ok=True)
    if is_c(path):
        cmd = ['gcc', '-std=gnu99', '-O1', '-fPIC', '-w'] + LOWERING[lowering]
    else:
        cmd = ['g++', '-std=gnu++11', '-O1', '-fPIC', '-fno-inline', '-w', '-I' + os.path.join(SRC, 'include'),
               '-I' + os.path.join(HERE, 'include'), '-I' + os.path.join(HERE, 'models')] + LOWERING[lowering]
    cmd += [HOOK_DEFINE] + dflags(defines or {}) + list(extra) + ['-c', path, '-o', out + '.tmp%d' % os.getpid()]
    must(cmd)
    os.rename(out + '.tmp%d' % os.getpid(), out)
    return out


BACKEND_FLAGS = {
    'minisat': [],
    'cadical': ['--sat-solver', 'cadical'],
    'kissat': ['--external-sat-solver', 'kissat'],
    'cvc5int': ['--cvc5', '--slice-formula'],
    'z3': ['--z3'],
    'bitwuzla': ['--bitwuzla'],
}


def parse_cbmc(out):
    res = {'verdict': 'error', 'failed': [], 'nprops': 0, 'trace': []}
    if re.search(r'^VERIFICATION SUCCESSFUL', out, re.M):
        res['verdict'] = 'pass'
    elif re.search(r'^VERIFICATION FAILED', out, re.M):
        res['verdict'] = 'fail'
    if '(error' in out or 'VERIFICATION ERROR' in out or 'SMT2 solver returned error' in out:
        res['verdict'] = 'error'
    for m in re.finditer(r'^\[([^\]]+)\] (.*): (SUCCESS|FAILURE)$', out, re.M):
        res['nprops'] += 1
        if m.group(3) == 'FAILURE':
            res['failed'].append((m.group(1), m.group(2)))
    m = re.search(r'\*\* (\d+) of (\d+) failed', out)
    if m:
        res['nprops'] = int(m.group(2))
    # traces: sections "Trace for <prop>:"
    secs = re.split(r'^Trace for ([^\n:]+):\s*$', out, flags=re.M)
    traces = {}
    for i in range(1, len(secs), 2):
        vals = []
        # states: "State N file F function G line L thread T" / separator / "  lhs=value (bits)"
        for mm in re.finditer(r'^State \d+ file \S+ function (\S+) line \d+ thread \d+\n-+\n\s*symx_ndg_\w+=[^\n(]*\(([01 ]+)\)\s*$',
                              secs[i + 1], re.M):
            if mm.group(1) == '__CPROVER_initialize':
                continue
            bits = mm.group(2).replace(' ', '')
            vals.append((len(bits), int(bits, 2)))
        traces[secs[i].strip()] = vals
    res['traces'] = traces
    return res


def portfolio(gb, q, work, logdir, witness=False):
    """run the back-ends in parallel; first conclusive answer wins"""
    procs = {}
    t0 = time.time()
    env = dict(os.environ)
    env['PATH'] = os.path.join(HERE, 'shim') + ':' + env.get('PATH', '')
    # CBMC writes the CNF for an external SAT solver to $TMPDIR and a killed loser of the portfolio leaves it behind: keep it in the work dir
    env['TMPDIR'] = os.path.join(work, 'tmp')
    os.makedirs(env['TMPDIR'], exist_ok=True)
    base = ['cbmc', gb, '--function', q.entry, '--unwind', str(q.unwind), '--unwinding-assertions',
            '--no-malloc-may-fail', '--drop-unused-functions', '--trace']
    if witness:
        base = ['cbmc', gb, '--function', q.entry, '--unwind', str(q.unwind), '--no-standard-checks', '--no-malloc-may-fail', '--drop-unused-functions']
    if q.unwindset:
        base += ['--unwindset', ','.join(q.unwindset)]
    if q.object_bits:
        base += ['--object-bits', str(q.object_bits)]
    if q.leak and not witness:
        base += ['--memory-leak-check']
    if not witness:
        base += q.extra
    memlimit = int(os.environ.get('SYMX_MEM_KB', str(20 * 1024 * 1024)))
    for b in q.backends:
        logf = os.path.join(logdir, q.slug() + ('.witness.' if witness else '.') + b + '.log')
        cmd = 'ulimit -v %d; exec %s' % (memlimit, ' '.join(_sh(a) for a in base + BACKEND_FLAGS[b]))
        f = open(logf, 'w')
        p = subprocess.Popen(['bash', '-c', cmd], stdout=f, stderr=subprocess.STDOUT, env=env, cwd=work, preexec_fn=_solver_preexec)
        procs[b] = (p, logf, f)
    rss = {b: 0 for b in procs}
    tick = 0
    winner = None
    results = {}
    while procs and winner is None:
        time.sleep(0.05)
        tick += 1
        for b in list(procs):
            p, logf, f = procs[b]
            if tick % 10 == 0:
                rss[b] = max(rss[b], _vmhwm_kb(p.pid))
            if p.poll() is not None:
                f.close()
                out = open(logf, errors='replace').read()
                r = parse_cbmc(out)
                r['backend'] = b
                r['solver_s'] = round(time.time() - t0, 2)
                r['rss_mb'] = rss[b] // 1024
                r['log'] = logf
                results[b] = r
                del procs[b]
                if r['verdict'] in ('pass', 'fail'):
                    winner = r
                    break
        if time.time() - t0 > q.cap:
            break
    for b, (p, logf, f) in procs.items():
        try:
            os.killpg(p.pid, signal.SIGKILL)
        except Exception:
            pass
        f.close()
    for b, (p, logf, f) in procs.items():
        try:
            p.wait(timeout=5)
        except Exception:
            pass
    if winner is None:
        errs = {b: r['verdict'] for b, r in results.items()}
        return {'verdict': 'timeout' if len(results) < len(q.backends) else 'error', 'backend': None,
                'solver_s': round(time.time() - t0, 2), 'failed': [], 'nprops': 0, 'traces': {}, 'detail': errs,
                'rss_mb': None, 'log': [r['log'] for r in results.values()]}
    return winner


def _sh(a):
    if re.match(r'^[A-Za-z0-9_./=:,+-]+$', a):
        return a
    return "'" + a.replace("'", "'\\''") + "'"


def prepare(q, work):
    """compile + link + translate; returns dict with paths and report"""
    qd = os.path.join(work, 'q', q.slug())
    os.makedirs(qd, exist_ok=True)
    lls = []
    for p in q.libs:
        sp, inc = subst_source(work, src_path(p), q)
        lls.append(compile_ll(work, sp, q.lowering, q.libdefs, inc))
    for p in q.models:
        lls.append(compile_ll(work, src_path(p), q.lowering, q.mdefs))
    hpath = os.path.join(HERE, 'harness', q.harness)
    lls.append(compile_ll(work, hpath, q.lowering, q.defines, tuple(q.cflags)))
    linked = os.path.join(qd, 'all.ll')
    must([LLVM_LINK, '-S'] + lls + ['-o', linked])
    text = open(linked).read()
    handler = None
    if 'asm ' in text:
        import asm2c
        handler = asm2c.handler
    csrc, rep, mod = ll2c.translate(text, [q.entry] + (['symx_yield'] if q.yield_in else []), q.stubs, q.externs, q.noops, handler, q.tls_slots, q.yield_in)
    cfile = os.path.join(qd, 'q.c')
    open(cfile, 'w').write(csrc)
    # IR hashes of the encoded functions (evidence: the formula is regenerated from the current tree)
    fh = {}
    for fn in rep['functions']:
        f = mod.funcs.get(fn)
        if f is not None:
            fh[fn] = hashlib.md5(f.src.encode()).hexdigest()[:8]
    rep['ir_hash'] = fh
    inc = ['-I' + os.path.join(HERE, 'include')]
    gb = os.path.join(qd, 'q.gb')
    d = ['-DSYMX_ABORT_FAILS'] if q.abort_fails else []
    if q.fp_uf:
        d.append('-DSYMX_FP_UF')
    must(['goto-cc', '-D__CPROVER__'] + inc + d + [cfile, '-o', gb])
    gbw = None
    if q.witness:
        gbw = os.path.join(qd, 'w.gb')
        must(['goto-cc', '-D__CPROVER__'] + inc + d + ['-DSYMX_WITNESS', cfile, '-o', gbw])
    return {'dir': qd, 'c': cfile, 'gb': gb, 'gbw': gbw, 'report': rep}


def witness_run(gbw, q, work, logdir):
    """reachability witness twin: same program with a final assert(false) that must FAIL; same back-end portfolio as the query
    (one back-end alone can take 100x longer on the same formula)"""
    t0 = time.time()
    res = portfolio(gbw, q, work, logdir, witness=True)
    ok = False
    if res.get('verdict') == 'fail':
        logs = res.get('log')
        out = open(logs, errors='replace').read() if isinstance(logs, str) else ''
        ok = bool(re.search(r'SYMX-WITNESS reached: FAILURE', out))
    return ok, round(time.time() - t0, 2)


def native_build(q, work, prep, sanitize=False, only_real=False):
    """exe A: harness + real sources compiled by g++ (no translation). exe B: generated C compiled by gcc."""
    qd = prep['dir']
    rt = os.path.join(HERE, 'native', 'symx_native.cpp')
    ent = '-DSYMX_ENTRY=' + q.entry
    hpath = os.path.join(HERE, 'harness', q.harness)
    d = dict(q.defines)
    d['SYMX_NATIVE'] = 1
    use = {'USE_' + v: 1 for v in q.stubs.values()}
    d.update(use)
    hobj = compile_obj(work, hpath, q.lowering, d, tuple(q.cflags))
    mobjs = [compile_obj(work, src_path(p), q.lowering, dict(use, SYMX_NATIVE=1, **q.mdefs)) for p in q.models]
    # every global function the harness / the models define overrides the library's definition of the same name:
    # weaken those definitions in the library objects (objcopy -W) so that the harness-side stub wins at link time
    defined = set()
    for o in [hobj] + mobjs:
        r = run(['nm', '--defined-only', '-g', o])
        for line in r.stdout.split('\n'):
            parts = line.split()
            if len(parts) == 3 and parts[1] in ('T', 'W'):
                defined.add(parts[2])
    objs = []
    for p in q.libs + q.native_libs:
        sp, inc = subst_source(work, src_path(p), q)
        o = compile_obj(work, sp, q.lowering, q.libdefs, inc)
        r = run(['nm', '--defined-only', '-g', o])
        clash = sorted(set(l.split()[2] for l in r.stdout.split('\n') if len(l.split()) == 3 and l.split()[1] == 'T') & defined)
        if clash:
            ow = o[:-2] + '.w%s.o' % hashlib.md5(repr(clash).encode()).hexdigest()[:6]
            if not os.path.exists(ow):
                cmd = ['objcopy']
                for sname in clash:
                    cmd += ['-W', sname]
                must(cmd + [o, ow + '.tmp%d' % os.getpid()])
                os.rename(ow + '.tmp%d' % os.getpid(), ow)
            o = ow
        objs.append(o)
    objs += mobjs
    objs.append(hobj)
    rto = compile_obj(work, rt, 'scalar', {}, (ent,), tag=q.entry)
    exeA = os.path.join(qd, 'native_real')
    must(['g++', '-o', exeA] + objs + [rto, '-lm', '-lpthread', '-no-pie', '-Wl,--unresolved-symbols=ignore-all', '-Wl,-z,lazy'])
    if only_real:
        return exeA, None
    exeB = os.path.join(qd, 'native_gen')
    ob = os.path.join(qd, 'q.native.o')
    must(['gcc', '-std=gnu11', '-O1', '-w', '-I' + os.path.join(HERE, 'include'), '-c', prep['c'], '-o', ob] + [x for x in LOWERING[q.lowering] if x.startswith('-m')])
    must(['g++', '-o', exeB, ob, rto, '-lm'])
    return exeA, exeB


def validate(q, work, prep, seed):
    exeA, exeB = native_build(q, work, prep)
    env = dict(os.environ, SYMX_SWEEP=str(q.native_sweep), SYMX_SEED=str(seed))
    ra = run([exeA], env=env, timeout=300)
    rb = run([exeB], env=env, timeout=300)
    m = re.search(r'SWEEP completed=(\d+)', ra.stdout)
    completed = int(m.group(1)) if m else 0
    same = (ra.stdout == rb.stdout) and ra.returncode == 0 and rb.returncode == 0
    fails = [l for l in ra.stdout.split('\n') if ' fails=' in l and ' fails=0 ' not in l]
    res = {'same': same, 'completed_runs': completed, 'native_check_failures': fails[:3], 'exe': exeA}
    if not same:
        la = ra.stdout.split('\n')
        lb = rb.stdout.split('\n')
        for x, y in zip(la, lb):
            if x != y:
                res['first_diff'] = [x, y]
                break
        else:
            res['first_diff'] = ['rc=%d len=%d' % (ra.returncode, len(la)), 'rc=%d len=%d %s' % (rb.returncode, len(lb), rb.stderr[-300:])]
    return res


def replay(q, work, prep, values, outdir):
    """run the counterexample against the real sources (g++ build, guard-page allocator)"""
    os.makedirs(outdir, exist_ok=True)
    exeA, exeB = native_build(q, work, prep)
    d = os.path.join(outdir, q.slug())
    shutil.rmtree(d, ignore_errors=True)
    os.makedirs(d)
    vf = os.path.join(d, 'values.txt')
    with open(vf, 'w') as f:
        for w, v in values:
            f.write('%d %x\n' % (w, v))
    shutil.copy(exeA, os.path.join(d, 'replay_real'))
    open(os.path.join(d, 'README'), 'w').write(
        'query %s\nharness symx/harness/%s entry %s defines %s lowering %s\n'
        'replay_real = that harness compiled by g++ against the real /repo sources (no translation).\n'
        'run: SYMX_EFENCE=1 SYMX_VALUES=values.txt ./replay_real  (exit 1 / SIGSEGV = violation reproduced)\n'
        % (q.key, q.harness, q.entry, q.defines, q.lowering))
    env = dict(os.environ, SYMX_VALUES=vf, SYMX_EFENCE='1')
    if q.leak:
        env['SYMX_LEAKCHECK'] = '1'
    try:
        r = run([os.path.join(d, 'replay_real')], env=env, timeout=120)
        rc, out = r.returncode, r.stdout + r.stderr
    except subprocess.TimeoutExpired:
        rc, out = -999, 'timeout'
    open(os.path.join(d, 'replay.log'), 'w').write('rc=%d\n%s' % (rc, out))
    reproduced = (rc == 1 and 'CHECK-FAILED' in out) or rc in (-11, -7, -6, 139, 135, 134)
    return reproduced, d, rc, out[-500:]


def classify(q, res):
    """split failed properties into harness assertions / memory-safety checks / unwinding / witness"""
    cats = {'assert': [], 'memsafe': [], 'unwind': [], 'abort': [], 'libassert': []}
    for pid, desc in res.get('failed', []):
        if 'unwinding assertion' in desc or '.unwind.' in pid:
            cats['unwind'].append((pid, desc))
        elif 'SYMX-ABORT' in desc:
            cats['abort'].append((pid, desc))
        elif 'library assert() failed' in desc:
            cats['libassert'].append((pid, desc))
        elif re.search(r'\.assertion\.\d+$', pid):
            cats['assert'].append((pid, desc))
        else:
            cats['memsafe'].append((pid, desc))
    return cats


def run_query(args):
    q, work, logdir, seed, replaydir = args
    t0 = time.time()
    rec = {'key': q.key, 'harness': q.harness, 'entry': q.entry, 'defines': q.defines, 'lowering': q.lowering,
           'unwind': q.unwind, 'expect': q.expect, 'canary_of': q.canary_of, 'sample': q.sample}
    try:
        prep = prepare(q, work)
        rec['functions'] = prep['report']['functions']
        rec['ir_hash'] = prep['report']['ir_hash']
        rec['env'] = prep['report']['env']
        rec['asm_blocks'] = prep['report']['asm']
        rec['prep_s'] = round(time.time() - t0, 2)
        res = portfolio(prep['gb'], q, work, logdir)
        rec.update(verdict=res['verdict'], backend=res['backend'], solver_s=res['solver_s'], rss_mb=res['rss_mb'],
                   nprops=res['nprops'], failed=res['failed'][:8])
        if res['verdict'] in ('timeout', 'error'):
            rec['detail'] = res.get('detail')
        cats = classify(q, res)
        rec['failed_kinds'] = {k: len(v) for k, v in cats.items() if v}
        if q.expect == 'pass' and res['verdict'] == 'pass':
            if q.witness:
                ok, ws = witness_run(prep['gbw'], q, work, logdir)
                rec['witness_ok'] = ok
                rec['witness_s'] = ws
            if q.validate:
                rec['validation'] = validate(q, work, prep, seed)
            if q.native_probe:
                # guard for a modelling assumption (e.g. A3, the text layer): the same harness, natively, on the real sources
                exeA, _ = native_build(q, work, prep, only_real=True)
                env = dict(os.environ, SYMX_SWEEP=str(q.native_sweep), SYMX_SEED=str(seed))
                ra = run([exeA], env=env, timeout=300)
                fails = [l for l in ra.stdout.split('\n') if ' fails=' in l and ' fails=0 ' not in l]
                m = re.search(r'SWEEP completed=(\d+)', ra.stdout)
                rec['native_probe'] = {'failing_runs': fails[:3], 'completed': int(m.group(1)) if m else 0, 'exe': exeA}
                if fails:
                    d = os.path.join(replaydir, q.slug())
                    shutil.rmtree(d, ignore_errors=True)
                    os.makedirs(d)
                    shutil.copy(exeA, os.path.join(d, 'replay_real'))
                    open(os.path.join(d, 'README'), 'w').write('native probe: SYMX_SWEEP=%s SYMX_SEED=%d ./replay_real\n%s\n' % (env['SYMX_SWEEP'], seed, fails[0]))
                    rec['native_probe']['exe'] = d
        if q.expect == 'pass' and res['verdict'] == 'fail':
            # counterexample: replay against the real sources
            vals = None
            for pid, desc in cats['assert'] + cats['memsafe'] + cats['abort'] + cats['libassert']:
                if pid in res['traces']:
                    vals = res['traces'][pid]
                    rec['cex_property'] = [pid, desc]
                    break
            if vals is None and res['traces']:
                pid = next(iter(res['traces']))
                vals = res['traces'][pid]
            if cats['unwind'] and not (cats['assert'] or cats['memsafe'] or cats['abort'] or cats['libassert']):
                rec['verdict'] = 'unwind'
            else:
                try:
                    ok, d, rc, tail = replay(q, work, prep, vals or [], replaydir)
                    rec['replay'] = {'reproduced': ok, 'dir': d, 'rc': rc, 'tail': tail, 'values': len(vals or [])}
                    if not ok and q.fp_uf:
                        # with floating-point operations uninterpreted the solver's values need not satisfy the harness assumptions under
                        # IEEE arithmetic (rc 77). The failing CHECK is still a claim about the real code: look for a concrete input with a
                        # seeded native sweep of the same harness on the real sources; only a native failure is reported as a violation.
                        exeA, _ = native_build(q, work, prep, only_real=True)
                        env = dict(os.environ, SYMX_SWEEP=str(max(q.native_sweep, 500)), SYMX_SEED=str(seed))
                        ra = run([exeA], env=env, timeout=300)
                        fails = [l for l in ra.stdout.split('\n') if ' fails=' in l and ' fails=0 ' not in l]
                        rec['replay']['native_sweep_failures'] = fails[:3]
                        if fails:
                            dd = os.path.join(replaydir, q.slug())
                            os.makedirs(dd, exist_ok=True)
                            shutil.copy(exeA, os.path.join(dd, 'replay_real'))
                            open(os.path.join(dd, 'README'), 'a').write('\nnative sweep (the solver values do not replay under IEEE arithmetic): SYMX_SWEEP=%s SYMX_SEED=%d ./replay_real\n%s\n' % (env['SYMX_SWEEP'], seed, fails[0]))
                            rec['replay'].update(reproduced=True, dir=dd, via='native sweep')
                except Exception as e:
                    rec['replay'] = {'reproduced': False, 'error': str(e)[-800:]}
    except Exception as e:
        rec['verdict'] = 'error'
        rec['detail'] = traceback.format_exc()[-2500:]
        # the code could not be encoded (e.g. a change pulled library code outside the translator's reach into the query).
        # Not a verdict - but run the same harness natively on the real sources: a failing CHECK there is a concrete,
        # replayable violation and is reported as such (labelled native_fallback in the evidence); otherwise inconclusive.
        if q.expect == 'pass':
            try:
                qd = os.path.join(work, 'q', q.slug())
                os.makedirs(qd, exist_ok=True)
                exeA, _ = native_build(q, work, {'dir': qd}, only_real=True)
                env = dict(os.environ, SYMX_SWEEP=str(max(q.native_sweep, 300)), SYMX_SEED=str(seed))
                ra = run([exeA], env=env, timeout=300)
                fails = [l for l in ra.stdout.split('\n') if ' fails=' in l and ' fails=0 ' not in l]
                rec['native_fallback'] = {'ran': True, 'failing_runs': fails[:3], 'rc': ra.returncode}
                if fails:
                    d = os.path.join(replaydir, q.slug())
                    shutil.rmtree(d, ignore_errors=True)
                    os.makedirs(d)
                    shutil.copy(exeA, os.path.join(d, 'replay_real'))
                    open(os.path.join(d, 'README'), 'w').write('native fallback: SYMX_SWEEP=%s SYMX_SEED=%d ./replay_real\n%s\n' % (env['SYMX_SWEEP'], seed, fails[0]))
                    rec['native_fallback']['dir'] = d
            except Exception as e2:
                rec['native_fallback'] = {'ran': False, 'error': str(e2)[-400:]}
    rec['wall_s'] = round(time.time() - t0, 2)
    return rec


# --------------------------------------------------------------------------- known findings
def load_findings():
    path = os.path.join(VERIF, 'known_findings.txt')
    opened, fixed = [], []
    if os.path.exists(path):
        for line in open(path):
            line = line.strip()
            if not line or line[0] == '#':
                continue
            m = re.match(r'^(open|fixed):\s+property=(\S+)\s+(.*)$', line)
            if not m:
                continue
            kind, pid, rest = m.groups()
            if kind == 'open':
                mm = re.match(r'^match=(\S+)\s+(.*)$', rest)
                if mm:
                    opened.append({'property': pid, 'match': mm.group(1), 'what': mm.group(2)})
            else:
                fixed.append({'property': pid, 'text': rest})
    return opened, fixed


# --------------------------------------------------------------------------- driver
def run_property(pid, spec, tier, seed):
    """spec: module with queries(tier, seed) and META"""
    t0 = time.time()
    tmp_parent = os.environ.get('SYMX_TMP', '/var/tmp')
    work = tempfile.mkdtemp(prefix='symx_%s_' % pid, dir=tmp_parent)
    keep = os.environ.get('SYMX_KEEP')

    def cleanup():
        if not keep:
            shutil.rmtree(work, ignore_errors=True)

    atexit.register(cleanup)
    logdir = os.path.join(work, 'logs')
    os.makedirs(logdir)
    replaydir = os.path.join(os.environ.get('SYMX_REPLAY_DIR', os.path.join(VERIF, 'replays')), pid)
    shutil.rmtree(replaydir, ignore_errors=True)
    queries = spec.queries(tier, seed)
    keys = [q.key for q in queries]
    assert len(set(keys)) == len(keys), 'duplicate query keys'
    # pre-compile library units once (parallel), so that workers only hit the cache
    units = set()
    nat_units = set()
    for q in queries:
        for p in q.libs:
            units.add((src_path(p), q.lowering))
    with ThreadPoolExecutor(NCPU) as ex:
        futs = [ex.submit(compile_ll, work, p, l) for p, l in units]
        for f in futs:
            f.result()
    nback = max(len(q.backends) for q in queries) if queries else 1
    workers = max(1, min(len(queries), NCPU // max(1, min(nback, 3))))
    workers = int(os.environ.get('SYMX_WORKERS', workers))
    recs = []
    with ProcessPoolExecutor(workers, initializer=_pdeathsig) as ex:
        futs = {ex.submit(run_query, (q, work, logdir, seed, replaydir)): q for q in queries}
        for f in as_completed(futs):
            r = f.result()
            recs.append(r)
            if os.environ.get('SYMX_VERBOSE'):
                print('  [%s] %s %s %.1fs %s' % (r.get('verdict'), r['key'], r.get('backend'), r.get('wall_s', 0),
                                                r.get('failed', '')[:2] if r.get('verdict') != 'pass' else ''), flush=True)
    order = {k: i for i, k in enumerate(keys)}
    recs.sort(key=lambda r: order[r['key']])
    opened, fixed = load_findings()
    violations = []
    known = []
    inconclusive = []
    for r, q in zip(recs, queries):
        v = r.get('verdict')
        if q.expect == 'fail':
            if v != 'fail':
                inconclusive.append((r, 'canary not detected (verdict %s)' % v))
            continue
        if v == 'pass':
            if q.witness and not r.get('witness_ok'):
                inconclusive.append((r, 'vacuous: reachability witness did not fail'))
            npb = r.get('native_probe')
            if npb and npb['failing_runs']:
                violations.append((r, 'the model holds, but the same harness run natively on the real sources (outside the model: see assumptions) fails a CHECK: %s' % npb['failing_runs'][0], npb.get('exe')))
            val = r.get('validation')
            if val is not None:
                if not val['same']:
                    inconclusive.append((r, 'translator mismatch: %s' % val.get('first_diff')))
                elif val['native_check_failures']:
                    violations.append((r, 'native sweep on the real sources fails a CHECK: %s' % val['native_check_failures'][0], val.get('exe')))
            continue
        if v == 'fail':
            what = '; '.join('%s' % d for _, d in r.get('failed', [])[:3])
            kf = None
            for o in opened:
                if o['property'] == pid and re.search(o['match'], q.finding_key):
                    kf = o
            if kf:
                known.append((r, kf))
                continue
            rp = r.get('replay') or {}
            first = (r.get('failed') or [['', '']])[0][1]
            if '[sampling idiom]' in first:
                # the first failing statement is one that is phrased for the sampling idiom normal_distribution(0, sigma)(generator): the library
                # no longer draws its gaussians that way (e.g. a unit-variance draw scaled by sigma). That is not a violation of the property;
                # the sigma-plumbing statement is simply not decided for the new idiom.
                inconclusive.append((r, 'not decided: the library changed the way it draws gaussians (%s); the statements after it assume that idiom' % first))
            elif rp.get('reproduced'):
                violations.append((r, what, rp.get('dir')))
            else:
                inconclusive.append((r, 'counterexample not reproduced on the real build (%s): %s' % (rp.get('rc', rp.get('error')), what)))
            continue
        nf = r.get('native_fallback') or {}
        if nf.get('failing_runs'):
            violations.append((r, 'encoding failed (%s); the same harness run natively on the real sources fails: %s' % (str(r.get('detail')).strip().split('\n')[-1][:200], nf['failing_runs'][0]), nf.get('dir')))
            continue
        inconclusive.append((r, 'no verdict: %s %s' % (v, str(r.get('detail'))[-600:])))
    wall = time.time() - t0
    write_evidence(pid, spec, tier, seed, recs, queries, violations, known, inconclusive, wall)
    for r, kf in known:
        print('KNOWN-FINDING: property=%s %s [%s]' % (pid, kf['what'], r['key']))
    for r, why in inconclusive:
        print('INCONCLUSIVE property=%s query=%s: %s' % (pid, r['key'], why))
    for r, what, path in violations:
        print('VIOLATION property=%s replay=%s' % (pid, path))
        print('  query=%s: %s' % (r['key'], what))
    npass = sum(1 for r in recs if r.get('verdict') == 'pass')
    print('%s tier=%s: %d queries, %d hold within bounds, %d canaries, %d known findings, %d violations, %d inconclusive, %.0fs wall, %.0fs solver'
          % (pid, tier, len(recs), npass, sum(1 for q in queries if q.expect == 'fail'), len(known), len(violations),
             len(inconclusive), wall, sum(r.get('solver_s') or 0 for r in recs)))
    cleanup()
    if violations:
        return 1
    if inconclusive:
        return 2
    return 0


def write_evidence(pid, spec, tier, seed, recs, queries, violations, known, inconclusive, wall):
    meta = getattr(spec, 'META', {})
    fe = {}
    for r in recs:
        for fn, h in (r.get('ir_hash') or {}).items():
            fe[fn] = h
    proved = [r for r in recs if r.get('verdict') == 'pass' and r.get('expect') == 'pass']
    distinct = len(set((r['entry'], json.dumps(r['defines'], sort_keys=True), r['lowering']) for r in proved if r.get('witness_ok')))
    samples = []
    for r in recs[:]:
        if len(samples) >= 6:
            break
        samples.append({k: r.get(k) for k in ('key', 'entry', 'defines', 'lowering', 'unwind', 'verdict', 'backend',
                                               'solver_s', 'rss_mb', 'nprops', 'witness_ok', 'sample')})
    ev = {
        'property_id': pid, 'tier': tier, 'seed': seed, 'level': 'model_checking',
        'coverage': {
            'evaluations': len(recs),
            'distinct_nontrivial': distinct,
            'rule': 'one evaluation = one SMT/SAT query discharged by the CBMC back-end portfolio on C regenerated from '
                    '/repo by clang -O1 + ll2c; distinct = distinct (harness entry, configuration constants, lowering) '
                    'triples whose verdict is "all assertions and unwinding assertions hold"; non-trivial = the '
                    'reachability witness twin of the query FAILED (the harness end is reachable under its assumptions)',
            'samples': samples,
            'functions_encoded': fe,
            'bounds': meta.get('bounds'),
            'outside_bounds': meta.get('outside'),
            'queries': [{k: r.get(k) for k in ('key', 'verdict', 'backend', 'solver_s', 'rss_mb', 'nprops', 'unwind',
                                                'witness_ok', 'expect', 'failed_kinds', 'prep_s', 'wall_s')} for r in recs],
            'witnesses_ok': sum(1 for r in recs if r.get('witness_ok')),
            'witnesses_run': sum(1 for r in recs if 'witness_ok' in r),
            'canaries_ok': sum(1 for r, q in zip(recs, queries) if q.expect == 'fail' and r.get('verdict') == 'fail'),
            'canaries_run': sum(1 for q in queries if q.expect == 'fail'),
            'translator_validation': [dict(key=r['key'], same=r['validation']['same'], runs=r['validation']['completed_runs'])
                                      for r in recs if r.get('validation')],
            'solver_time_s': round(sum(r.get('solver_s') or 0 for r in recs), 1),
            'known_findings': [dict(query=r['key'], what=kf['what']) for r, kf in known],
            'inconclusive': [dict(query=r['key'], why=why[:300]) for r, why in inconclusive],
            'exhaustive': False,
        },
        'assumptions': meta.get('assumptions', []),
        'wall_s': round(wall, 1),
        'violations': len(violations),
    }
    evdir = os.environ.get('SYMX_EVIDENCE_DIR', os.path.join(VERIF, 'evidence'))
    os.makedirs(evdir, exist_ok=True)
    with open(os.path.join(evdir, pid + '.json'), 'w') as f:
        json.dump(ev, f, indent=1)
