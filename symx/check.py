#!/usr/bin/env python3
"""usage: python3 symx/check.py <property-id> [--tier quick|thorough]
Decides one property of /verif/properties.jsonl by bounded symbolic checking of /repo's current tree."""
import sys, os, argparse, importlib
HERE = os.path.dirname(os.path.abspath(__file__))
sys.path.insert(0, HERE)
sys.path.insert(0, os.path.join(HERE, 'props'))
import engine


def main():
    ap = argparse.ArgumentParser()
    ap.add_argument('pid')
    ap.add_argument('--tier', default=os.environ.get('VERIF_TIER', 'quick'), choices=['quick', 'thorough'])
    ap.add_argument('--only', default=None, help='regex on query keys (debugging)')
    a = ap.parse_args()
    seed = int(os.environ.get('VERIF_SEED', '1'))
    spec = importlib.import_module(a.pid)
    if a.only:
        import re
        orig = spec.queries
        spec.queries = lambda tier, seed: [q for q in orig(tier, seed) if re.search(a.only, q.key)]
    sys.exit(engine.run_property(a.pid, spec, a.tier, seed))


if __name__ == '__main__':
    main()
